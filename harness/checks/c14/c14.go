// Package c14: values that violate a chart's values.schema.json are never
// rendered or deployed. Bounded-exhaustive enumeration of (schema, chart
// tree, value layers) x entry points x skip flag on the real actions; the
// expected verdict comes from an independent evaluator of the generated
// keyword family applied to reference-coalesced values.
package c14

import (
	"encoding/json"
	"fmt"
	"os"
	"path/filepath"
	"sort"
	"strconv"
	"strings"

	"github.com/go-logr/logr"
	"k8s.io/klog/v2"
	"sigs.k8s.io/yaml"

	"helm.sh/helm/v4/pkg/action"
	chart "helm.sh/helm/v4/pkg/chart/v2"
	chartutil "helm.sh/helm/v4/pkg/chart/v2/util"
	"helm.sh/helm/v4/pkg/cli/values"
	"helm.sh/helm/v4/pkg/getter"

	"verif/harness/internal/core"
	"verif/harness/internal/hx"
)

const prop = "C14"

func init() {
	core.Register(&core.Check{
		ID:    prop,
		Level: "exploration",
		Rule: "full products, no sampling. Part A (evaluator agreement): every schema of the family {n: none|integer|integer 1..5|enum[1,2]|string|boolean} x {s: none|string enum[a,b]|string} x " +
			"{o: none|object{k:integer} required k additionalProperties:false|object} x required subsets, placed on the root chart / an enabled subchart / a sub-subchart, x every content over n,s,o " +
			"x {all in user values, all in the chart's own values.yaml}. Part B (gate placement): a reduced schema list (each keyword alone and combined) x 13 placements (root, root with subchart, " +
			"root with crds/, subchart without/with condition on/off by defaults/by user, alias, sub-subchart, parent off, leaf off, root+sub both constrained) x 8 contents x every route " +
			"(user float64/int64/json.Number/1.0, -f and --set through cli/values.MergeValues, own defaults, parent's section, root's section, overriding pairs, key-wise split, merged object). " +
			"Part C: .global.g constrained in a subchart x global arriving from user/root defaults/own defaults. Part E: part B's schemas x 11 placements with crds/ in the root, a subchart, a sibling subchart or both while the violated schema is in the root, " +
			"a subchart (plain/conditional/aliased/disabled), a sub-subchart or both x 9 contents x {U, D} x {install, dry-run, template, upgrade}. Part F: two charts with the SAME name and version (declared or by alias) at different tree positions (cousins a/db+b/db, parent/child db+db/db, uncle/nephew, root/child) " +
			"carrying DIFFERENT schemas: ordered schema pairs x content pairs x {U, D} x {install, dry-run, template, upgrade, lint}. Part G: two-step histories: the previous revision stored the user's values under a chart without schema (or under this chart with the explicit skip option), " +
			"then upgrade --reuse-values / --reset-then-reuse-values with NO values to the chart whose schema they violate: part B's schemas x {root, sub, leaf(, alias, root+sub)} x 9 contents x {U, D, U>D(, split, D<Ugood)}. " +
			"Part H: n constrained by maximum / enum / const / minimum = +-2^53 x n in {2^53, 2^53+1, -(2^53+1), 5} arriving as int64, json.Number and --set, on root/sub/leaf; " +
			"o = object with required members j,k where values.yaml supplies them and the user overrides only a part of the table (and the variants that stay invalid). " +
			"Part D: part B's schemas x {root, sub, root with crds/} x 9 contents x {U, D} on the Secrets and " +
			"ConfigMaps storage drivers (cluster-touching entries only). Every (schema, tree) pair x {install, install --dry-run, template, upgrade after a " +
			"valid install, upgrade reusing stored values, lint} x skip-schema-validation off/on. distinct = (schema text, chart tree, layers, entry, skip) with a schema that constrains something",
		Run:    run,
		Replay: replay,
		Assumptions: []string{
			"value trees contain no null and no list (what null does while values are layered belongs to C04/C13); schemas stay inside the keyword family the independent evaluator implements (it panics on anything else)",
			"final values of a subchart = its values.yaml overridden by the parent's final section for it, plus a 'global' table (parent's globals over the subchart's own); a subchart is disabled when its condition path is false in the parent's final values",
			"a number with zero fractional part (1.0, json.Number(\"1.0\")) is an integer, as JSON Schema says",
			"additionalProperties:false at the root of a schema is only generated for a root chart without subcharts (Helm adds a section per subchart and a 'global' table to the values it validates)",
			"with several charts violated at once, an error naming any one of them is accepted; an aliased subchart may be named by alias or by chart name",
			"install/upgrade run through hx.World.Exec (real kube.Client over the simulated API server; Memory storage in parts A-C, Secrets and ConfigMaps storage in part D); lint runs action.Lint.Run on the chart written with chartutil.SaveDir",
			"chart defaults reach install/upgrade as float64 (hx.ChartSpec.Build) and reach lint as json.Number (real loader); user numbers are enumerated as float64, int64, json.Number",
		},
		RequiredFloors: []string{
			"reject:root", "reject:sub", "reject:leaf", "reject:both", "accept-valid", "accept-skip-invalid", "accept-disabled-invalid", "deployed-valid",
			"reject-src:D", "reject-src:P", "reject-src:U", "reject-src:none",
			"kw:type", "kw:enum", "kw:minimum", "kw:maximum", "kw:required", "kw:additionalProperties",
			"reject@install", "reject@install-dry", "reject@template", "reject@upgrade", "reject@upgrade-reuse", "reject@lint",
			"reject-route:U-int64", "reject-route:U-jnum", "reject-route:U-file", "reject-route:U-set", "reject-global",
			"reject@install:crds-root/schema-sub", "reject@install:crds-root/schema-leaf", "reject@install:crds-sub/schema-root", "reject@install:crds-sibling/schema-sub",
			"reject@install:crds-root+sub/schema-root+sub", "crds-installed-when-valid",
			"reject@upgrade-reuse-flag", "reject@upgrade-reset-then-reuse", "reject@upgrade-reuse-flag-after-skip",
			"kw:const", "H-reject:big+1:U-int64@install", "H-reject:big+1:U-jnum@install", "H-reject:big+1:U-set@install", "H-reject:big+1:U-jnum@lint", "H-reject:-big-1:U-int64@upgrade",
			"H-accept:big:U-int64@install", "H-accept:big:U-jnum@lint", "H-accept:partial:D{j,k}<U{k}@lint", "H-accept:partial:D{j}+U{k}@lint", "H-accept:partial:D{j,k}<U{k}@install", "H-reject:partial:D{k}<U{k}@lint",
			"reject:twins", "twins-discriminating-reject@install", "twins-discriminating-accept@install", "twins-discriminating-reject@upgrade", "twins-discriminating-accept@upgrade",
			"twins-discriminating-reject@template", "twins-discriminating-accept@template", "twins-discriminating-reject@lint", "twins-discriminating-accept@lint",
		},
	})
}

// ---------- one case ----------

// Case is a complete, replayable case.
type Case struct {
	Part      string        `json:"part"`
	Placement string        `json:"placement"`
	Class     string        `json:"class"`
	Body      string        `json:"body"`
	Route     string        `json:"route"`
	Layers    layers        `json:"layers"`
	Chart     *hx.ChartSpec `json:"chart"`
	// User: the user's values with typed numbers ({"$int64":"1"}, {"$jnum":"1.0"}), before the CLI route.
	User  any    `json:"user"`
	CLI   string `json:"cli,omitempty"` // "" | file | set
	Entry string `json:"entry"`
	Skip  bool   `json:"skip"`
	// Driver: storage driver of the world ("" = memory).
	Driver string `json:"driver,omitempty"`
}

type replayData struct {
	Key  string `json:"key"`
	Case Case   `json:"case"`
}

type finding struct {
	Kind string // accepted-invalid | unnamed-chart | sent-before-reject | state-changed | rejected-valid | skip-not-honoured | unexpected-error
	Src  string // layer that supplied the offending value (reported, not part of the key)
	Sent string // first request/record written (sent-before-reject)
	Rep  string // number representation / CLI route, when the finding disappears with plain float64 user values
	Text string
}

type outcome struct {
	Verdicts []verdict
	WouldBe  []verdict // verdicts with conditions ignored
	Failed   bool
	Err      string
	Sent     []string
	Deployed bool
	User     map[string]any
	Findings []finding
	// Observations are counted, not judged.
	Observations []string
}

func (cs Case) driver() string {
	if cs.Driver == "" {
		return "memory"
	}
	return cs.Driver
}

func (cs Case) entryName() string {
	if cs.Skip {
		return cs.Entry + "+skip"
	}
	return cs.Entry
}

var entriesAll = []string{"install", "install-dry", "template", "upgrade", "lint", "upgrade-reuse",
	// two-step histories (part G only): the previous revision stored the user's values, the upgrade passes none
	"upgrade-reuse-flag", "upgrade-reset-then-reuse", "upgrade-reuse-flag-after-skip"}

func historyEntry(en string) bool {
	return en == "upgrade-reuse-flag" || en == "upgrade-reset-then-reuse" || en == "upgrade-reuse-flag-after-skip"
}

const schemaErrMark = "values don't meet the specifications of the schema"

type env struct {
	base      map[string]*hx.World // per driver: a world with release r installed from the schema-less chart
	tmpRoot   string
	lintKey   string
	lintDir   string
	lintShape string
}

func newEnv() *env { return &env{base: map[string]*hx.World{}} }

func (e *env) close() {
	if e.tmpRoot != "" {
		os.RemoveAll(e.tmpRoot)
	}
}

func (e *env) tmp() string {
	if e.tmpRoot == "" {
		d, err := os.MkdirTemp("/var/tmp", "vc14-w-")
		if err != nil {
			panic(err)
		}
		e.tmpRoot = d
	}
	return e.tmpRoot
}

func (e *env) baseWorld(drv string) *hx.World {
	if e.base[drv] == nil {
		w := hx.NewWorld(drv)
		r := w.Exec(hx.Op{Kind: "install", Release: "r", Chart: newChart("rootc")}, nil)
		if r.Failed {
			panic("c14: base install failed: " + r.Err)
		}
		e.base[drv] = w
	}
	return e.base[drv].Clone()
}

func addRaw(ch *chart.Chart) {
	b, err := yaml.Marshal(ch.Values)
	if err != nil {
		panic(err)
	}
	ch.Raw = append(ch.Raw, &chart.File{Name: "values.yaml", Data: b})
	for _, d := range ch.Dependencies() {
		addRaw(d)
	}
}

// chartDir writes the chart to disk (once per distinct chart in a row).
func (e *env) chartDir(spec *hx.ChartSpec) string {
	b, _ := json.Marshal(spec)
	if string(b) == e.lintKey {
		return e.lintDir
	}
	// one directory per worker; between charts the files are unlinked (not
	// truncated in place: truncate-and-rewrite is 100x slower than
	// unlink-and-create on this filesystem), directories are kept
	base := filepath.Join(e.tmp(), "lint")
	filepath.WalkDir(base, func(p string, d os.DirEntry, _ error) error {
		if d != nil && !d.IsDir() {
			os.Remove(p)
		}
		return nil
	})
	if sh := shapeOf(spec); sh != e.lintShape {
		os.RemoveAll(base)
		e.lintShape = sh
	}
	ch := spec.Build()
	addRaw(ch)
	if err := chartutil.SaveDir(ch, base); err != nil {
		panic("c14: SaveDir: " + err.Error())
	}
	e.lintKey, e.lintDir = string(b), filepath.Join(base, spec.Name)
	return e.lintDir
}

// shapeOf identifies the set of files a chart tree is written to.
func shapeOf(s *hx.ChartSpec) string {
	sh := fmt.Sprintf("%s(schema=%v,crds=%v", s.Name, s.Schema != "", s.CRDs)
	for _, x := range s.Subcharts {
		sh += "," + shapeOf(x)
	}
	return sh + ")"
}

func stripSchemas(s *hx.ChartSpec) *hx.ChartSpec {
	c := *s
	c.Schema = ""
	c.Subcharts = nil
	for _, x := range s.Subcharts {
		c.Subcharts = append(c.Subcharts, stripSchemas(x))
	}
	return &c
}

// flatten turns a tree into sorted --set assignments.
func flatten(prefix string, m map[string]any, out *[]string) {
	for _, k := range sortedKeys(m) {
		p := k
		if prefix != "" {
			p = prefix + "." + k
		}
		switch x := m[k].(type) {
		case map[string]any:
			flatten(p, x, out) // an empty table has no --set spelling; absent and empty sections coalesce alike
		case string:
			*out = append(*out, p+"="+x)
		case bool:
			*out = append(*out, p+"="+strconv.FormatBool(x))
		case float64:
			*out = append(*out, p+"="+strconv.FormatFloat(x, 'f', -1, 64))
		case int64:
			*out = append(*out, p+"="+strconv.FormatInt(x, 10))
		default:
			panic(fmt.Sprintf("c14: --set of %T", x))
		}
	}
}

// viaCLI produces the user's values the way the helm command does.
func (e *env) viaCLI(user map[string]any, kind string) map[string]any {
	var opts values.Options
	switch kind {
	case "file":
		b, err := yaml.Marshal(user)
		if err != nil {
			panic(err)
		}
		f := filepath.Join(e.tmp(), "values-f.yaml")
		if err := os.WriteFile(f, b, 0o644); err != nil {
			panic(err)
		}
		opts.ValueFiles = []string{f}
	case "set":
		flatten("", user, &opts.Values)
	default:
		panic("cli route " + kind)
	}
	m, err := opts.MergeValues(getter.Providers{})
	if err != nil {
		panic("c14: MergeValues: " + err.Error())
	}
	return m
}

func sentOrStored(res hx.Result) []string {
	var out []string
	for _, en := range res.Log {
		if en.Mutating() || strings.HasSuffix(en.Class, "-write") {
			if en.Path == "" { // memory driver: no path, the label says what was written
				out = append(out, en.Label)
			} else {
				out = append(out, en.Verb+" "+en.Path)
			}
		}
	}
	return out
}

// sentTag shortens "POST /apis/g/v1/things" to POST_things and "store:Create r.v1" to store:Create.
func sentTag(s string) string {
	f := strings.Fields(s)
	if len(f) >= 2 && strings.HasPrefix(f[1], "/") {
		return f[0] + "_" + f[1][strings.LastIndex(f[1], "/")+1:]
	}
	return f[0]
}

// runCase executes one case on the real code and judges it.
func (e *env) runCase(cs Case) (o outcome) {
	user, _ := decodeTyped(cs.User).(map[string]any)
	if user == nil {
		user = map[string]any{}
	}
	if cs.CLI != "" {
		user = e.viaCLI(user, cs.CLI)
	}
	o.User = user
	o.Verdicts = refVerdicts(cs.Chart, user, false)
	o.WouldBe = refVerdicts(cs.Chart, user, true)
	expectReject := len(o.Verdicts) > 0 && !cs.Skip

	stateChanged := ""
	op := hx.Op{Release: "r", Chart: cs.Chart, Values: copyMap(user), SkipSchemaValidation: cs.Skip}
	switch cs.Entry {
	case "lint":
		dir := e.chartDir(cs.Chart)
		a := action.NewLint()
		a.Namespace, a.SkipSchemaValidation = hx.Namespace, cs.Skip
		var msgs []string
		func() {
			defer func() {
				if p := recover(); p != nil {
					msgs = append(msgs, fmt.Sprintf("PANIC: %v", p))
				}
			}()
			for _, err := range a.Run([]string{dir}, copyMap(user)).Errors {
				msgs = append(msgs, err.Error())
			}
		}()
		o.Failed, o.Err = len(msgs) > 0, strings.Join(msgs, "\n")
	default:
		var w *hx.World
		switch cs.Entry {
		case "install":
			w, op.Kind = hx.NewWorld(cs.driver()), "install"
		case "install-dry":
			w, op.Kind, op.DryRun = hx.NewWorld(cs.driver()), "install", true
		case "template":
			w, op.Kind, op.DryRun, op.ClientOnly = hx.NewWorld(cs.driver()), "install", true, true
		case "upgrade":
			w, op.Kind = e.baseWorld(cs.driver()), "upgrade"
		case "upgrade-reuse":
			// the previous revision stored the user's values (its chart had no schema); the upgrade passes none
			w = hx.NewWorld(cs.driver())
			r := w.Exec(hx.Op{Kind: "install", Release: "r", Chart: stripSchemas(cs.Chart), Values: copyMap(user)}, nil)
			if r.Failed {
				o.Findings = append(o.Findings, finding{Kind: "unexpected-error", Text: "preparing install: " + r.Err})
				return o
			}
			op.Kind, op.Values = "upgrade", nil
		case "upgrade-reuse-flag", "upgrade-reset-then-reuse", "upgrade-reuse-flag-after-skip":
			// The stored values were acceptable when they were stored: the previous revision's chart had no
			// schema (same tree, same defaults), or (-after-skip) it was this chart installed with the explicit
			// skip option. The upgrade carries no values (hx.Exec hands Helm an empty map) and asks for
			// --reuse-values / --reset-then-reuse-values; the final values are the stored ones over the defaults.
			w = hx.NewWorld(cs.driver())
			prev := hx.Op{Kind: "install", Release: "r", Chart: stripSchemas(cs.Chart), Values: copyMap(user)}
			if cs.Entry == "upgrade-reuse-flag-after-skip" {
				prev.Chart, prev.SkipSchemaValidation = cs.Chart, true
			}
			if r := w.Exec(prev, nil); r.Failed {
				o.Findings = append(o.Findings, finding{Kind: "unexpected-error", Text: "preparing install: " + r.Err})
				return o
			}
			op.Kind, op.Values = "upgrade", nil
			op.ReuseValues = cs.Entry != "upgrade-reset-then-reuse"
			op.ResetThenReuseValues = cs.Entry == "upgrade-reset-then-reuse"
		default:
			panic("entry " + cs.Entry)
		}
		before, histBefore := "", 0
		if expectReject {
			before, histBefore = w.Canon(), len(w.History("r"))
		}
		res := w.Exec(op, nil)
		o.Failed, o.Err, o.Sent = res.Failed, res.Err, sentOrStored(res)
		if expectReject {
			if after := w.Canon(); after != before {
				stateChanged = "cluster/storage content changed"
			} else if n := len(w.History("r")); n != histBefore {
				stateChanged = fmt.Sprintf("history length %d -> %d", histBefore, n)
			}
		}
		if cs.Entry == "install" && !res.Failed && res.Release != nil && res.Release.Info.Status.String() == "deployed" && len(o.Sent) > 0 {
			o.Deployed = true
		}
	}

	src := "-"
	if len(o.Verdicts) > 0 && cs.Part != "F" { // (part F has no layer structure: each twin gets one content)
		src = "other"
		for _, v := range o.Verdicts {
			if v.Depth == len(chainOf(cs.Chart, cs.Placement))-1 {
				src = cs.Layers.source(v.Where)
			}
		}
	}
	add := func(kind, text string) { o.Findings = append(o.Findings, finding{Kind: kind, Src: src, Text: text}) }
	if expectReject {
		if !o.Failed {
			add("accepted-invalid", "returned no error")
		} else {
			named := false
			for _, v := range o.Verdicts {
				for _, n := range v.Names {
					named = named || strings.Contains(o.Err, n)
				}
			}
			if !named {
				add("unnamed-chart", "error does not name the chart: "+oneLine(o.Err))
			}
		}
		if len(o.Sent) > 0 && o.Failed { // (an accepted invalid case sends, of course: reported once, above)
			add("sent-before-reject", "requests/records written: "+strings.Join(o.Sent, ", "))
			o.Findings[len(o.Findings)-1].Sent = sentTag(o.Sent[0])
		} else if stateChanged != "" && o.Failed {
			add("state-changed", stateChanged)
		}
		return o
	}
	if o.Failed {
		switch {
		case cs.Skip && len(o.Verdicts) > 0 && isSchemaErr(cs.Entry, o.Err) && strings.HasPrefix(cs.Entry, "lint"):
			// helm lint --skip-schema-validation still validates the root chart's values.yaml rule
			// (lint.go calls rules.ValuesWithOverrides without the flag). The statement says skipping is
			// possible ONLY through the option; it does not promise that the option skips every rule of
			// lint, and rejecting invalid values is the safe direction: recorded as an observation.
			o.Observations = append(o.Observations, "lint-skip-not-honoured-for-root-values-rule")
		case cs.Skip && len(o.Verdicts) > 0 && isSchemaErr(cs.Entry, o.Err):
			add("skip-not-honoured", "schema error despite skip-schema-validation: "+oneLine(o.Err))
		case isSchemaErr(cs.Entry, o.Err):
			add("rejected-valid", "schema error although every enabled chart's final values satisfy its schema: "+oneLine(o.Err))
		default:
			add("unexpected-error", oneLine(o.Err))
		}
	}
	return o
}

// isSchemaErr recognises the schema step's rejection. Lint's values.yaml rule
// reports the validator's text without Helm's prefix; generated charts lint
// clean otherwise, so for lint every "at '<pointer>'" line counts.
func isSchemaErr(entry, text string) bool {
	if strings.Contains(text, schemaErrMark) {
		return true
	}
	return entry == "lint" && (strings.Contains(text, "- at '") || strings.Contains(text, "jsonschema") || strings.Contains(text, "unable to validate schema"))
}

func chainOf(spec *hx.ChartSpec, placement string) []string {
	for _, p := range append(placements(), crdPlacements()...) {
		if p.Name == placement {
			return p.Chain
		}
	}
	return []string{spec.Name}
}

func oneLine(s string) string {
	s = strings.Join(strings.Fields(s), " ")
	if len(s) > 300 {
		s = s[:300] + "..."
	}
	return s
}

func keyOf(cs Case, f finding) string {
	k := fmt.Sprintf("%s/%s/%s", f.Kind, cs.entryName(), cs.Class)
	if f.Sent != "" {
		k += "/" + f.Sent
	}
	if f.Rep != "" {
		k += "/rep=" + f.Rep
	}
	return core.SanitizeKey(k)
}

// judge runs a case and, for a failing case whose user values are not plain
// float64 maps, re-runs it with plain ones: if the finding persists the
// representation is not what matters and stays out of the key.
func (e *env) judge(cs Case) outcome {
	o := e.runCase(cs)
	if len(o.Findings) == 0 || (cs.CLI == "" && cs.Layers.URep == "") {
		return o
	}
	plain := cs
	plain.CLI, plain.Layers.URep = "", ""
	plain.User = plainFloats(decodeTyped(cs.User))
	po := e.runCase(plain)
	for i, f := range o.Findings {
		persists := false
		for _, pf := range po.Findings {
			persists = persists || pf.Kind == f.Kind
		}
		if !persists {
			o.Findings[i].Rep = cs.Route
			if cs.Part == "H" { // integers beyond 2^53: one key per entry and level, whatever the spelling
				o.Findings[i].Rep = "integer-beyond-2^53"
			}
		}
	}
	return o
}

func plainFloats(v any) any {
	if m, ok := v.(map[string]any); ok {
		c := map[string]any{}
		for k, x := range m {
			c[k] = plainFloats(x)
		}
		return c
	}
	if f, ok := num(v); ok {
		return f
	}
	return v
}

func what(cs Case, o outcome, f finding) string {
	ref := "reference: all enabled charts valid"
	if len(o.Verdicts) > 0 {
		var parts []string
		for _, v := range o.Verdicts {
			parts = append(parts, fmt.Sprintf("chart %s violates %q at %q", v.Chart, v.Keyword, v.Where))
		}
		ref = "reference: " + strings.Join(parts, "; ")
	}
	if f.Src != "-" {
		ref += " (offending value from layer " + f.Src + ")"
	}
	return fmt.Sprintf("%s [%s, schema %s, route %s] chart %s user-values %s: %s; %s", cs.entryName(), cs.Placement, cs.Body, cs.Route, cs.Chart.ID(), show(o.User), f.Text, ref)
}

func replay(c *core.Ctx, data json.RawMessage) []core.Violation {
	var rd replayData
	if err := json.Unmarshal(data, &rd); err != nil {
		return nil
	}
	e := newEnv()
	defer e.close()
	o := e.judge(rd.Case)
	for _, f := range o.Findings {
		if f.Kind == "unexpected-error" {
			continue
		}
		c.Violate(prop, keyOf(rd.Case, f), what(rd.Case, o, f), rd)
	}
	return core.FilterKey(c.TakeViolations(), rd.Key)
}

// ---------- enumeration ----------

type unit struct {
	Part   string
	B      body
	P      placement
	Trees  []vtree
	Driver string
}

func hasChartLayers(L layers) bool {
	return len(L.D)+len(L.P)+len(L.G)+len(L.RootGlobal) > 0
}

// orderTrees puts the trees that leave the chart files unchanged first so
// that the chart written for lint is reused.
func orderTrees(ts []vtree) []vtree {
	sort.SliceStable(ts, func(i, j int) bool { return !hasChartLayers(ts[i].L) && hasChartLayers(ts[j].L) })
	return ts
}

func units(thorough bool) []unit {
	var out []unit
	ps := placements()
	byName := map[string]placement{}
	for _, p := range ps {
		byName[p.Name] = p
	}
	// Part A: full family x {root, sub, leaf} x all contents x canonical routes
	for _, b := range bodiesFull(thorough) {
		for _, pn := range []string{"root", "sub", "leaf"} {
			p := byName[pn]
			var ts []vtree
			for _, c := range contents(thorough) {
				ts = append(ts, routes(c, len(p.Chain)-1, false)...)
			}
			out = append(out, unit{Part: "A", B: b, P: p, Trees: orderTrees(ts)})
		}
	}
	// Part B: reduced family x every placement x reduced contents x every route
	for _, b := range append(bodiesReduced(thorough), rootAPBodies(thorough)...) {
		for _, p := range ps {
			if strings.HasSuffix(b.ID, ",!ap") && !p.RootAP {
				continue
			}
			var ts []vtree
			for _, c := range reducedContents() {
				ts = append(ts, routes(c, len(p.Chain)-1, true)...)
			}
			out = append(out, unit{Part: "B", B: b, P: p, Trees: orderTrees(ts)})
		}
	}
	// Part C: globals
	for _, b := range globalBodies() {
		for _, pn := range []string{"sub", "leaf", "sub-off-by-default", "sub-alias", "sub-on-by-user"} {
			out = append(out, unit{Part: "C", B: b, P: byName[pn], Trees: orderTrees(globalTrees())})
		}
	}
	// Part E: crds/ somewhere in the tree, the schema somewhere (else) in the tree
	for _, b := range bodiesReduced(thorough) {
		for _, p := range crdPlacements() {
			var ts []vtree
			for _, c := range reducedContents() {
				ts = append(ts, routes(c, len(p.Chain)-1, false)...)
			}
			out = append(out, unit{Part: "E", B: b, P: p, Trees: orderTrees(ts)})
		}
	}
	// Part G: two-step histories with --reuse-values / --reset-then-reuse-values and no new values
	gPlacements := []string{"root", "sub", "leaf"}
	if thorough {
		gPlacements = append(gPlacements, "sub-alias", "root+sub")
	}
	for _, b := range bodiesReduced(thorough) {
		for _, pn := range gPlacements {
			p := byName[pn]
			var ts []vtree
			for _, c := range reducedContents() {
				for _, vt := range routes(c, len(p.Chain)-1, true) {
					if vt.Route == "U" || vt.Route == "D" || vt.Route == "U>D" || (thorough && (vt.Route == "split" || vt.Route == "D<Ugood")) {
						ts = append(ts, vt)
					}
				}
			}
			out = append(out, unit{Part: "G", B: b, P: p, Trees: orderTrees(ts)})
		}
	}
	// Part H: integers beyond 2^53 against exact bounds; partial override of a nested table with required members
	for _, b := range bigBodies() {
		for _, pn := range []string{"root", "sub", "leaf"} {
			out = append(out, unit{Part: "H", B: b, P: byName[pn], Trees: bigTrees()})
		}
	}
	for _, pn := range []string{"root", "root-with-sub", "sub", "leaf"} {
		out = append(out, unit{Part: "H", B: nestedRequiredBody(), P: byName[pn], Trees: orderTrees(partialOverrideTrees(len(byName[pn].Chain) - 1))})
	}
	// Part D: the other storage drivers
	dBodies := bodiesReduced(false)
	if !thorough {
		dBodies = dBodies[:5]
	}
	for _, drv := range []string{"secrets", "configmaps"} {
		for _, b := range dBodies {
			for _, pn := range []string{"root", "sub", "root-crds"} {
				p := byName[pn]
				var ts []vtree
				for _, c := range reducedContents() {
					ts = append(ts, routes(c, len(p.Chain)-1, false)...)
				}
				out = append(out, unit{Part: "D", B: b, P: p, Trees: orderTrees(ts), Driver: drv})
			}
		}
	}
	return out
}

func entriesFor(part string, thorough bool, vt vtree) []string {
	var out []string
	for _, en := range entriesAll {
		switch {
		case part == "H" && en == "upgrade-reuse":
			continue
		case historyEntry(en) != (part == "G"):
			continue // part G runs the two-step histories and nothing else
		case part == "E" && (en == "lint" || en == "upgrade-reuse"):
			continue // part E is about what is sent before the rejection: install (real, dry, template) and upgrade
		case part == "D" && (en == "lint" || en == "template" || en == "install-dry"):
			continue // part D is about the storage driver: entries that can write to it
		case en == "upgrade-reuse" && part == "A":
			continue // the stored-values path is a route question: parts B and C
		case en == "lint" && part == "A" && !thorough && vt.Route != "U":
			continue // quick: part A meets lint through the user-values route only (writing a chart per content is 5x slower than a run); part B covers lint on every route
		}
		out = append(out, en)
	}
	return out
}

func constrains(schemaText string) bool {
	s := parseSchema(schemaText)
	_, a := s["properties"]
	_, b := s["required"]
	_, d := s["additionalProperties"]
	return a || b || d
}

func run(c *core.Ctx) {
	klog.SetLogger(logr.Discard()) // client-go complains on stderr about the sim's missing discovery endpoints on every operation
	th := c.Thorough()
	e := newEnv()
	defer e.close()
	us := units(th)
	seenOutcome := map[string]bool{}
	nPairs := map[string]int{}
	for _, u := range us {
		nPairs[u.Part] += len(u.Trees)
	}
	c.Bound("units(schema x placement)", strconv.Itoa(len(us)))
	c.Bound("schemas-full", strconv.Itoa(len(bodiesFull(th))))
	c.Bound("schemas-reduced", strconv.Itoa(len(bodiesReduced(th))+len(rootAPBodies(th))))
	c.Bound("contents-full", strconv.Itoa(len(contents(th))))
	c.Bound("placements", strconv.Itoa(len(placements())))
	c.Bound("crd-placements", strconv.Itoa(len(crdPlacements())))
	c.Bound("pairs", fmt.Sprintf("A=%d B=%d C=%d D=%d E=%d", nPairs["A"], nPairs["B"], nPairs["C"], nPairs["D"], nPairs["E"])+fmt.Sprintf(" G=%d H=%d", nPairs["G"], nPairs["H"]))
	c.Bound("entries", strings.Join(entriesAll, ",")+" x skip{off,on}")
	smoke := map[string]bool{bodiesReduced(false)[1].ID: true, bodiesReduced(false)[7].ID: true, bodiesReduced(false)[10].ID: true}
	for _, u := range us {
		switch c.Only { // debugging aid: --only A|B|C|D runs one part, --only smoke three schemas of part B
		case "":
		case "smoke":
			if u.Part != "B" || !smoke[u.B.ID] {
				continue
			}
		default:
			if u.Part != c.Only {
				continue
			}
		}
		if !c.NextMine() {
			continue
		}
		nontrivial := constrains(u.B.Text)
		for _, vt := range u.Trees {
			spec, user := u.P.build(u.B.Text, vt.L)
			if vt.L.URep != "" {
				user = withRep(user, vt.L.URep).(map[string]any)
			}
			for _, en := range entriesFor(u.Part, th, vt) {
				for _, skip := range []bool{false, true} {
					cs := Case{Part: u.Part, Placement: u.P.Name, Class: u.P.Class, Body: u.B.ID, Route: vt.Route, Layers: vt.L,
						Chart: spec, User: encodeTyped(user), CLI: vt.L.CLI, Entry: en, Skip: skip, Driver: u.Driver}
					o := e.judge(cs)
					record(c, cs, o, nontrivial, u.B.Text+"|"+u.P.Name+"|"+vt.Route+"|"+show(layersCanon(vt.L))+"|"+cs.entryName()+"|"+u.Driver, u.B.Text, seenOutcome)
				}
			}
		}
	}
	runTwins(c, e, seenOutcome)
}

// record books one executed case: counters, distinct set, outcome class, sample, violations.
func record(c *core.Ctx, cs Case, o outcome, nontrivial bool, distinct, schema string, seenOutcome map[string]bool) {
	c.Eval(1)
	c.Count("runs:"+cs.Entry, 1)
	c.Count("runs:part"+cs.Part, 1)
	if nontrivial {
		c.Distinct(distinct)
	}
	class := classify(c, cs, o)
	c.Outcome(class)
	if !seenOutcome[class+"@"+cs.Entry] {
		seenOutcome[class+"@"+cs.Entry] = true
		c.Sample(map[string]any{"case": cs.entryName(), "placement": cs.Placement, "schema": schema, "route": cs.Route, "chart": cs.Chart.ID(),
			"user": show(o.User), "reference": o.Verdicts, "error": oneLine(o.Err), "outcome": class})
	}
	for _, ob := range o.Observations {
		c.Count("observation:"+ob, 1)
	}
	for _, f := range o.Findings {
		if f.Kind == "unexpected-error" {
			c.NotExhaustive("case failed outside the schema step (%s, %s, %s): %s", cs.entryName(), cs.Placement, cs.Route, f.Text)
			continue
		}
		k := keyOf(cs, f)
		c.Violate(prop, k, what(cs, o, f), replayData{Key: k, Case: cs})
	}
}

func layersCanon(L layers) map[string]any {
	b, _ := json.Marshal(L)
	var m map[string]any
	json.Unmarshal(b, &m)
	for k, v := range m {
		if v == nil || v == "" {
			delete(m, k)
		}
	}
	return m
}

// classify names the outcome class and raises the floors a correct run reaches.
func classify(c *core.Ctx, cs Case, o outcome) string {
	if len(o.Findings) > 0 {
		return "VIOLATION:" + o.Findings[0].Kind
	}
	switch {
	case len(o.Verdicts) > 0 && !cs.Skip:
		c.Floor("reject:" + cs.Class)
		c.Floor("reject@" + cs.Entry)
		if cs.Part == "H" {
			c.Floor("H-reject:" + cs.Route + "@" + cs.Entry)
		}
		if cs.Part == "E" {
			c.Floor("reject@" + cs.Entry + ":" + cs.Placement)
		}
		c.Floor("reject-route:" + cs.Route)
		for _, v := range o.Verdicts {
			c.Floor("kw:" + v.Keyword)
			if strings.HasPrefix(v.Where, "/global") {
				c.Floor("reject-global")
			}
			if v.Depth == len(chainOf(cs.Chart, cs.Placement))-1 {
				c.Floor("reject-src:" + cs.Layers.source(v.Where))
			}
		}
		return "rejected-invalid"
	case len(o.Verdicts) > 0 && cs.Skip:
		c.Floor("accept-skip-invalid")
		return "accepted-invalid-with-skip"
	case len(o.WouldBe) > 0:
		c.Floor("accept-disabled-invalid")
		return "accepted-disabled-subchart-not-evaluated"
	}
	c.Floor("accept-valid")
	if cs.Part == "H" && !cs.Skip {
		c.Floor("H-accept:" + cs.Route + "@" + cs.Entry)
	}
	if o.Deployed {
		c.Floor("deployed-valid")
		for _, sent := range o.Sent {
			if cs.Part == "E" && strings.HasSuffix(sent, "/customresourcedefinitions") {
				c.Floor("crds-installed-when-valid") // the placements really ship CRDs Helm would send
			}
		}
	}
	if cs.Skip {
		return "accepted-valid-with-skip"
	}
	return "accepted-valid"
}
