// Package c14: values that violate a chart's values.schema.json are never
// rendered or deployed. Bounded-exhaustive enumeration of (schema, chart
// tree, value layers) x entry points x skip flag on the real actions; the
// expected verdict comes from an independent evaluator of the generated
// keyword family applied to reference-coalesced values.
package c14

import (
	"encoding/json"
	"fmt"
	"os"
	"path/filepath"
	"sort"
	"strconv"
	"strings"

	"sigs.k8s.io/yaml"

	"helm.sh/helm/v4/pkg/action"
	chart "helm.sh/helm/v4/pkg/chart/v2"
	chartutil "helm.sh/helm/v4/pkg/chart/v2/util"
	"helm.sh/helm/v4/pkg/cli/values"
	"helm.sh/helm/v4/pkg/getter"

	"verif/harness/internal/core"
	"verif/harness/internal/hx"
)

const prop = "C14"

func init() {
	core.Register(&core.Check{
		ID:    prop,
		Level: "exploration",
		Rule: "full products, no sampling. Part A (evaluator agreement): every schema of the family {n: none|integer|integer 1..5|enum[1,2]|string|boolean} x {s: none|string enum[a,b]|string} x " +
			"{o: none|object{k:integer} required k additionalProperties:false|object} x required subsets, placed on the root chart / an enabled subchart / a sub-subchart, x every content over n,s,o " +
			"x {all in user values, all in the chart's own values.yaml}. Part B (gate placement): a reduced schema list (each keyword alone and combined) x 13 placements (root, root with subchart, " +
			"root with crds/, subchart without/with condition on/off by defaults/by user, alias, sub-subchart, parent off, leaf off, root+sub both constrained) x 8 contents x every route " +
			"(user float64/int64/json.Number/1.0, -f and --set through cli/values.MergeValues, own defaults, parent's section, root's section, overriding pairs, key-wise split, merged object). " +
			"Part C: .global.g constrained in a subchart x global arriving from user/root defaults/own defaults. Every (schema, tree) pair x {install, install --dry-run, template, upgrade after a " +
			"valid install, upgrade reusing stored values, lint} x skip-schema-validation off/on. distinct = (schema text, chart tree, layers, entry, skip) with a schema that constrains something",
		Run:    run,
		Replay: replay,
		Assumptions: []string{
			"value trees contain no null and no list (what null does while values are layered belongs to C04/C13); schemas stay inside the keyword family the independent evaluator implements (it panics on anything else)",
			"final values of a subchart = its values.yaml overridden by the parent's final section for it, plus a 'global' table (parent's globals over the subchart's own); a subchart is disabled when its condition path is false in the parent's final values",
			"a number with zero fractional part (1.0, json.Number(\"1.0\")) is an integer, as JSON Schema says",
			"additionalProperties:false at the root of a schema is only generated for a root chart without subcharts (Helm adds a section per subchart and a 'global' table to the values it validates)",
			"with several charts violated at once, an error naming any one of them is accepted; an aliased subchart may be named by alias or by chart name",
			"install/upgrade run through hx.World.Exec (real kube.Client over the simulated API server, Secrets storage); lint runs action.Lint.Run on the chart written with chartutil.SaveDir",
			"chart defaults reach install/upgrade as float64 (hx.ChartSpec.Build) and reach lint as json.Number (real loader); user numbers are enumerated as float64, int64, json.Number",
		},
		RequiredFloors: []string{
			"reject:root", "reject:sub", "reject:leaf", "reject:both", "accept-valid", "accept-skip-invalid", "accept-disabled-invalid", "deployed-valid",
			"reject-src:D", "reject-src:P", "reject-src:U", "reject-src:none",
			"kw:type", "kw:enum", "kw:minimum", "kw:maximum", "kw:required", "kw:additionalProperties",
			"reject@install", "reject@install-dry", "reject@template", "reject@upgrade", "reject@upgrade-reuse", "reject@lint",
			"reject-route:U-int64", "reject-route:U-jnum", "reject-route:U-file", "reject-route:U-set", "reject-global",
		},
	})
}

// ---------- one case ----------

// Case is a complete, replayable case.
type Case struct {
	Part      string        `json:"part"`
	Placement string        `json:"placement"`
	Class     string        `json:"class"`
	Body      string        `json:"body"`
	Route     string        `json:"route"`
	Layers    layers        `json:"layers"`
	Chart     *hx.ChartSpec `json:"chart"`
	// User: the user's values with typed numbers ({"$int64":"1"}, {"$jnum":"1.0"}), before the CLI route.
	User  any    `json:"user"`
	CLI   string `json:"cli,omitempty"` // "" | file | set
	Entry string `json:"entry"`
	Skip  bool   `json:"skip"`
}

type replayData struct {
	Key  string `json:"key"`
	Case Case   `json:"case"`
}

type finding struct {
	Kind string // accepted-invalid | unnamed-chart | sent-before-reject | state-changed | rejected-valid | skip-not-honoured | unexpected-error
	Src  string
	Text string
}

type outcome struct {
	Verdicts []verdict
	WouldBe  []verdict // verdicts with conditions ignored
	Failed   bool
	Err      string
	Sent     []string
	Deployed bool
	User     map[string]any
	Findings []finding
}

func (cs Case) entryName() string {
	if cs.Skip {
		return cs.Entry + "+skip"
	}
	return cs.Entry
}

var entriesAll = []string{"install", "install-dry", "template", "upgrade", "lint", "upgrade-reuse"}

const schemaErrMark = "values don't meet the specifications of the schema"

type env struct {
	base    *hx.World // a world with release r installed from the schema-less chart
	tmpRoot string
	lintKey string
	lintDir string
	lintN   int
}

func newEnv() *env { return &env{} }

func (e *env) close() {
	if e.tmpRoot != "" {
		os.RemoveAll(e.tmpRoot)
	}
}

func (e *env) tmp() string {
	if e.tmpRoot == "" {
		d, err := os.MkdirTemp("/var/tmp", "vc14-w-")
		if err != nil {
			panic(err)
		}
		e.tmpRoot = d
	}
	return e.tmpRoot
}

func (e *env) baseWorld() *hx.World {
	if e.base == nil {
		w := hx.NewWorld("secrets")
		r := w.Exec(hx.Op{Kind: "install", Release: "r", Chart: newChart("rootc")}, nil)
		if r.Failed {
			panic("c14: base install failed: " + r.Err)
		}
		e.base = w
	}
	return e.base.Clone()
}

func addRaw(ch *chart.Chart) {
	b, err := yaml.Marshal(ch.Values)
	if err != nil {
		panic(err)
	}
	ch.Raw = append(ch.Raw, &chart.File{Name: "values.yaml", Data: b})
	for _, d := range ch.Dependencies() {
		addRaw(d)
	}
}

// chartDir writes the chart to disk (once per distinct chart in a row).
func (e *env) chartDir(spec *hx.ChartSpec) string {
	b, _ := json.Marshal(spec)
	if string(b) == e.lintKey {
		return e.lintDir
	}
	if e.lintDir != "" {
		os.RemoveAll(filepath.Dir(e.lintDir))
	}
	e.lintN++
	base := filepath.Join(e.tmp(), "c"+strconv.Itoa(e.lintN))
	ch := spec.Build()
	addRaw(ch)
	if err := chartutil.SaveDir(ch, base); err != nil {
		panic("c14: SaveDir: " + err.Error())
	}
	e.lintKey, e.lintDir = string(b), filepath.Join(base, spec.Name)
	return e.lintDir
}

func stripSchemas(s *hx.ChartSpec) *hx.ChartSpec {
	c := *s
	c.Schema = ""
	c.Subcharts = nil
	for _, x := range s.Subcharts {
		c.Subcharts = append(c.Subcharts, stripSchemas(x))
	}
	return &c
}

// flatten turns a tree into sorted --set assignments.
func flatten(prefix string, m map[string]any, out *[]string) {
	for _, k := range sortedKeys(m) {
		p := k
		if prefix != "" {
			p = prefix + "." + k
		}
		switch x := m[k].(type) {
		case map[string]any:
			if len(x) == 0 {
				panic("c14: empty table cannot be written with --set")
			}
			flatten(p, x, out)
		case string:
			*out = append(*out, p+"="+x)
		case bool:
			*out = append(*out, p+"="+strconv.FormatBool(x))
		case float64:
			*out = append(*out, p+"="+strconv.FormatFloat(x, 'f', -1, 64))
		default:
			panic(fmt.Sprintf("c14: --set of %T", x))
		}
	}
}

// viaCLI produces the user's values the way the helm command does.
func (e *env) viaCLI(user map[string]any, kind string) map[string]any {
	var opts values.Options
	switch kind {
	case "file":
		b, err := yaml.Marshal(user)
		if err != nil {
			panic(err)
		}
		f := filepath.Join(e.tmp(), "values-f.yaml")
		if err := os.WriteFile(f, b, 0o644); err != nil {
			panic(err)
		}
		opts.ValueFiles = []string{f}
	case "set":
		flatten("", user, &opts.Values)
	default:
		panic("cli route " + kind)
	}
	m, err := opts.MergeValues(getter.Providers{})
	if err != nil {
		panic("c14: MergeValues: " + err.Error())
	}
	return m
}

func sentOrStored(res hx.Result) []string {
	var out []string
	for _, en := range res.Log {
		if en.Mutating() || strings.HasSuffix(en.Class, "-write") {
			out = append(out, en.Verb+" "+en.Path)
		}
	}
	return out
}

// runCase executes one case on the real code and judges it.
func (e *env) runCase(cs Case) (o outcome) {
	user, _ := decodeTyped(cs.User).(map[string]any)
	if user == nil {
		user = map[string]any{}
	}
	if cs.CLI != "" {
		user = e.viaCLI(user, cs.CLI)
	}
	o.User = user
	o.Verdicts = refVerdicts(cs.Chart, user, false)
	o.WouldBe = refVerdicts(cs.Chart, user, true)
	expectReject := len(o.Verdicts) > 0 && !cs.Skip

	stateChanged := ""
	op := hx.Op{Release: "r", Chart: cs.Chart, Values: copyMap(user), SkipSchemaValidation: cs.Skip}
	switch cs.Entry {
	case "lint":
		dir := e.chartDir(cs.Chart)
		a := action.NewLint()
		a.Namespace, a.SkipSchemaValidation = hx.Namespace, cs.Skip
		var msgs []string
		func() {
			defer func() {
				if p := recover(); p != nil {
					msgs = append(msgs, fmt.Sprintf("PANIC: %v", p))
				}
			}()
			for _, err := range a.Run([]string{dir}, copyMap(user)).Errors {
				msgs = append(msgs, err.Error())
			}
		}()
		o.Failed, o.Err = len(msgs) > 0, strings.Join(msgs, "\n")
	default:
		var w *hx.World
		switch cs.Entry {
		case "install":
			w, op.Kind = hx.NewWorld("secrets"), "install"
		case "install-dry":
			w, op.Kind, op.DryRun = hx.NewWorld("secrets"), "install", true
		case "template":
			w, op.Kind, op.DryRun, op.ClientOnly = hx.NewWorld("secrets"), "install", true, true
		case "upgrade":
			w, op.Kind = e.baseWorld(), "upgrade"
		case "upgrade-reuse":
			// the previous revision stored the user's values (its chart had no schema); the upgrade passes none
			w = hx.NewWorld("secrets")
			r := w.Exec(hx.Op{Kind: "install", Release: "r", Chart: stripSchemas(cs.Chart), Values: copyMap(user)}, nil)
			if r.Failed {
				o.Findings = append(o.Findings, finding{Kind: "unexpected-error", Text: "preparing install: " + r.Err})
				return o
			}
			op.Kind, op.Values = "upgrade", nil
		default:
			panic("entry " + cs.Entry)
		}
		before, histBefore := w.Canon(), len(w.History("r"))
		res := w.Exec(op, nil)
		o.Failed, o.Err, o.Sent = res.Failed, res.Err, sentOrStored(res)
		if after := w.Canon(); after != before {
			stateChanged = "cluster/storage content changed"
		} else if n := len(w.History("r")); n != histBefore {
			stateChanged = fmt.Sprintf("history length %d -> %d", histBefore, n)
		}
		if h := w.History("r"); cs.Entry == "install" && len(h) == 1 && h[0].Info.Status.String() == "deployed" {
			o.Deployed = true
		}
	}

	src := "-"
	if len(o.Verdicts) > 0 {
		src = "other"
		for _, v := range o.Verdicts {
			if v.Depth == len(chainOf(cs.Chart, cs.Placement))-1 {
				src = cs.Layers.source(v.Where)
			}
		}
	}
	add := func(kind, text string) { o.Findings = append(o.Findings, finding{Kind: kind, Src: src, Text: text}) }
	if expectReject {
		if !o.Failed {
			add("accepted-invalid", "returned no error")
		} else {
			named := false
			for _, v := range o.Verdicts {
				for _, n := range v.Names {
					named = named || strings.Contains(o.Err, n)
				}
			}
			if !named {
				add("unnamed-chart", "error does not name the chart: "+oneLine(o.Err))
			}
		}
		if len(o.Sent) > 0 {
			add("sent-before-reject", "requests/records written: "+strings.Join(o.Sent, ", "))
		} else if stateChanged != "" {
			add("state-changed", stateChanged)
		}
		return o
	}
	if o.Failed {
		switch {
		case cs.Skip && len(o.Verdicts) > 0 && isSchemaErr(cs.Entry, o.Err):
			add("skip-not-honoured", "schema error despite skip-schema-validation: "+oneLine(o.Err))
		case isSchemaErr(cs.Entry, o.Err):
			add("rejected-valid", "schema error although every enabled chart's final values satisfy its schema: "+oneLine(o.Err))
		default:
			add("unexpected-error", oneLine(o.Err))
		}
	}
	return o
}

// isSchemaErr recognises the schema step's rejection. Lint's values.yaml rule
// reports the validator's text without Helm's prefix; generated charts lint
// clean otherwise, so for lint every "at '<pointer>'" line counts.
func isSchemaErr(entry, text string) bool {
	if strings.Contains(text, schemaErrMark) {
		return true
	}
	return entry == "lint" && (strings.Contains(text, "- at '") || strings.Contains(text, "jsonschema") || strings.Contains(text, "unable to validate schema"))
}

func chainOf(spec *hx.ChartSpec, placement string) []string {
	for _, p := range placements() {
		if p.Name == placement {
			return p.Chain
		}
	}
	return []string{spec.Name}
}

func oneLine(s string) string {
	s = strings.Join(strings.Fields(s), " ")
	if len(s) > 300 {
		s = s[:300] + "..."
	}
	return s
}

func keyOf(cs Case, f finding) string {
	switch f.Kind {
	case "rejected-valid":
		return core.SanitizeKey(fmt.Sprintf("%s/%s/%s/route=%s", f.Kind, cs.entryName(), cs.Class, cs.Route))
	case "skip-not-honoured":
		return core.SanitizeKey(fmt.Sprintf("%s/%s/%s", f.Kind, cs.entryName(), cs.Class))
	case "sent-before-reject", "state-changed":
		return core.SanitizeKey(fmt.Sprintf("%s/%s/%s", f.Kind, cs.entryName(), cs.Placement))
	}
	return core.SanitizeKey(fmt.Sprintf("%s/%s/%s/src=%s", f.Kind, cs.entryName(), cs.Class, f.Src))
}

func what(cs Case, o outcome, f finding) string {
	ref := "reference: all enabled charts valid"
	if len(o.Verdicts) > 0 {
		var parts []string
		for _, v := range o.Verdicts {
			parts = append(parts, fmt.Sprintf("chart %s violates %q at %q", v.Chart, v.Keyword, v.Where))
		}
		ref = "reference: " + strings.Join(parts, "; ")
	}
	return fmt.Sprintf("%s [%s, schema %s, route %s] chart %s user-values %s: %s; %s", cs.entryName(), cs.Placement, cs.Body, cs.Route, cs.Chart.ID(), show(o.User), f.Text, ref)
}

func replay(c *core.Ctx, data json.RawMessage) []core.Violation {
	var rd replayData
	if err := json.Unmarshal(data, &rd); err != nil {
		return nil
	}
	e := newEnv()
	defer e.close()
	o := e.runCase(rd.Case)
	for _, f := range o.Findings {
		if f.Kind == "unexpected-error" {
			continue
		}
		c.Violate(prop, keyOf(rd.Case, f), what(rd.Case, o, f), rd)
	}
	return core.FilterKey(c.TakeViolations(), rd.Key)
}

// ---------- enumeration ----------

type unit struct {
	Part  string
	B     body
	P     placement
	Trees []vtree
}

func hasChartLayers(L layers) bool {
	return len(L.D)+len(L.P)+len(L.G)+len(L.RootGlobal) > 0
}

// orderTrees puts the trees that leave the chart files unchanged first so
// that the chart written for lint is reused.
func orderTrees(ts []vtree) []vtree {
	sort.SliceStable(ts, func(i, j int) bool { return !hasChartLayers(ts[i].L) && hasChartLayers(ts[j].L) })
	return ts
}

func units(thorough bool) []unit {
	var out []unit
	ps := placements()
	byName := map[string]placement{}
	for _, p := range ps {
		byName[p.Name] = p
	}
	// Part A: full family x {root, sub, leaf} x all contents x canonical routes
	for _, b := range bodiesFull(thorough) {
		for _, pn := range []string{"root", "sub", "leaf"} {
			p := byName[pn]
			var ts []vtree
			for _, c := range contents(thorough) {
				ts = append(ts, routes(c, len(p.Chain)-1, false)...)
			}
			out = append(out, unit{"A", b, p, orderTrees(ts)})
		}
	}
	// Part B: reduced family x every placement x reduced contents x every route
	for _, b := range append(bodiesReduced(thorough), rootAPBodies(thorough)...) {
		for _, p := range ps {
			if strings.HasSuffix(b.ID, ",!ap") && !p.RootAP {
				continue
			}
			var ts []vtree
			for _, c := range reducedContents() {
				ts = append(ts, routes(c, len(p.Chain)-1, true)...)
			}
			out = append(out, unit{"B", b, p, orderTrees(ts)})
		}
	}
	// Part C: globals
	for _, b := range globalBodies() {
		for _, pn := range []string{"sub", "leaf", "sub-off-by-default", "sub-alias", "sub-on-by-user"} {
			out = append(out, unit{"C", b, byName[pn], orderTrees(globalTrees())})
		}
	}
	return out
}

func entriesFor(part string, thorough bool, vt vtree) []string {
	var out []string
	for _, en := range entriesAll {
		switch {
		case en == "upgrade-reuse" && part == "A":
			continue // the stored-values path is a route question: parts B and C
		case en == "lint" && part == "A" && !thorough && vt.Route == "U":
			continue // quick: part A meets lint through the defaults route only (lint is 3-5x slower)
		}
		out = append(out, en)
	}
	return out
}

func constrains(schemaText string) bool {
	s := parseSchema(schemaText)
	_, a := s["properties"]
	_, b := s["required"]
	_, d := s["additionalProperties"]
	return a || b || d
}

func run(c *core.Ctx) {
	th := c.Thorough()
	e := newEnv()
	defer e.close()
	us := units(th)
	seenOutcome := map[string]bool{}
	nPairs := map[string]int{}
	for _, u := range us {
		nPairs[u.Part] += len(u.Trees)
	}
	c.Bound("units(schema x placement)", strconv.Itoa(len(us)))
	c.Bound("schemas-full", strconv.Itoa(len(bodiesFull(th))))
	c.Bound("schemas-reduced", strconv.Itoa(len(bodiesReduced(th))+len(rootAPBodies(th))))
	c.Bound("contents-full", strconv.Itoa(len(contents(th))))
	c.Bound("placements", strconv.Itoa(len(placements())))
	c.Bound("pairs", fmt.Sprintf("A=%d B=%d C=%d", nPairs["A"], nPairs["B"], nPairs["C"]))
	c.Bound("entries", strings.Join(entriesAll, ",")+" x skip{off,on}")
	for _, u := range us {
		if !c.NextMine() {
			continue
		}
		nontrivial := constrains(u.B.Text)
		for _, vt := range u.Trees {
			spec, user := u.P.build(u.B.Text, vt.L)
			if vt.L.URep != "" {
				user = withRep(user, vt.L.URep).(map[string]any)
			}
			for _, en := range entriesFor(u.Part, th, vt) {
				for _, skip := range []bool{false, true} {
					cs := Case{Part: u.Part, Placement: u.P.Name, Class: u.P.Class, Body: u.B.ID, Route: vt.Route, Layers: vt.L,
						Chart: spec, User: encodeTyped(user), CLI: vt.L.CLI, Entry: en, Skip: skip}
					o := e.runCase(cs)
					c.Eval(1)
					c.Count("runs:"+en, 1)
					c.Count("runs:part"+u.Part, 1)
					if nontrivial {
						c.Distinct(u.B.Text + "|" + u.P.Name + "|" + vt.Route + "|" + show(layersCanon(vt.L)) + "|" + cs.entryName())
					}
					class := classify(c, cs, o)
					c.Outcome(class)
					if !seenOutcome[class+"@"+en] {
						seenOutcome[class+"@"+en] = true
						c.Sample(map[string]any{"case": cs.entryName(), "placement": cs.Placement, "schema": u.B.Text, "route": vt.Route, "chart": spec.ID(),
							"user": show(o.User), "reference": o.Verdicts, "error": oneLine(o.Err), "outcome": class})
					}
					for _, f := range o.Findings {
						if f.Kind == "unexpected-error" {
							c.NotExhaustive("case failed outside the schema step (%s, %s, %s): %s", cs.entryName(), cs.Placement, cs.Route, f.Text)
							continue
						}
						k := keyOf(cs, f)
						c.Violate(prop, k, what(cs, o, f), replayData{Key: k, Case: cs})
					}
				}
			}
		}
	}
}

func layersCanon(L layers) map[string]any {
	b, _ := json.Marshal(L)
	var m map[string]any
	json.Unmarshal(b, &m)
	for k, v := range m {
		if v == nil || v == "" {
			delete(m, k)
		}
	}
	return m
}

// classify names the outcome class and raises the floors a correct run reaches.
func classify(c *core.Ctx, cs Case, o outcome) string {
	if len(o.Findings) > 0 {
		return "VIOLATION:" + o.Findings[0].Kind
	}
	switch {
	case len(o.Verdicts) > 0 && !cs.Skip:
		c.Floor("reject:" + cs.Class)
		c.Floor("reject@" + cs.Entry)
		c.Floor("reject-route:" + cs.Route)
		for _, v := range o.Verdicts {
			c.Floor("kw:" + v.Keyword)
			if strings.HasPrefix(v.Where, "/global") {
				c.Floor("reject-global")
			}
			if v.Depth == len(chainOf(cs.Chart, cs.Placement))-1 {
				c.Floor("reject-src:" + cs.Layers.source(v.Where))
			}
		}
		return "rejected-invalid"
	case len(o.Verdicts) > 0 && cs.Skip:
		c.Floor("accept-skip-invalid")
		return "accepted-invalid-with-skip"
	case len(o.WouldBe) > 0:
		c.Floor("accept-disabled-invalid")
		return "accepted-disabled-subchart-not-evaluated"
	}
	c.Floor("accept-valid")
	if o.Deployed {
		c.Floor("deployed-valid")
	}
	if cs.Skip {
		return "accepted-valid-with-skip"
	}
	return "accepted-valid"
}
