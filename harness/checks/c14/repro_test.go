package c14

// Standalone reproductions of the two findings, using only Helm's public API
// and Helm's own fake kube client (no harness code).

import (
	"bytes"
	"io"
	"path/filepath"
	"strings"
	"testing"

	"helm.sh/helm/v4/pkg/action"
	chart "helm.sh/helm/v4/pkg/chart/v2"
	chartutil "helm.sh/helm/v4/pkg/chart/v2/util"
	"helm.sh/helm/v4/pkg/kube"
	kubefake "helm.sh/helm/v4/pkg/kube/fake"
	"helm.sh/helm/v4/pkg/storage"
	"helm.sh/helm/v4/pkg/storage/driver"
)

const reproSchema = `{"type":"object","properties":{"n":{"type":"integer"}}}`

func reproChart() *chart.Chart {
	return &chart.Chart{
		Metadata:  &chart.Metadata{APIVersion: "v2", Name: "rootc", Version: "0.1.0"},
		Schema:    []byte(reproSchema),
		Values:    map[string]any{},
		Raw:       []*chart.File{{Name: "values.yaml", Data: []byte("{}\n")}},
		Templates: []*chart.File{{Name: "templates/cm.yaml", Data: []byte("apiVersion: v1\nkind: ConfigMap\nmetadata:\n  name: x\n")}},
	}
}

// helm lint --skip-schema-validation --set n=x still fails on the schema.
func TestReproLintSkipIgnoredByValuesRule(t *testing.T) {
	dir := t.TempDir()
	if err := chartutil.SaveDir(reproChart(), dir); err != nil {
		t.Fatal(err)
	}
	l := action.NewLint()
	l.SkipSchemaValidation = true
	res := l.Run([]string{filepath.Join(dir, "rootc")}, map[string]any{"n": "x"})
	if len(res.Errors) == 0 {
		t.Skip("defect not present: lint --skip-schema-validation accepted the values")
	}
	t.Logf("lint --skip-schema-validation reported: %v", res.Errors)
	if !strings.Contains(res.Errors[0].Error(), "got string, want integer") {
		t.Fatalf("unexpected error %v", res.Errors)
	}
}

// orderClient is Helm's own printing fake; it only records the order of calls.
type orderClient struct {
	*kubefake.PrintingKubeClient
	calls []string
}

func (c *orderClient) Build(r io.Reader, validate bool) (kube.ResourceList, error) {
	b, _ := io.ReadAll(r)
	c.calls = append(c.calls, "Build("+strings.SplitN(strings.TrimSpace(string(b)), "\n", 3)[1]+")")
	return c.PrintingKubeClient.Build(bytes.NewReader(b), validate)
}

func (c *orderClient) Create(rs kube.ResourceList) (*kube.Result, error) {
	c.calls = append(c.calls, "Create")
	return c.PrintingKubeClient.Create(rs)
}

// helm install of a chart with crds/ and schema-violating values sends the
// CRDs to the cluster (KubeClient.Create) and only then fails on the schema.
func TestReproCRDsCreatedBeforeSchemaRejection(t *testing.T) {
	ch := reproChart()
	ch.Files = []*chart.File{{Name: "crds/crd.yaml", Data: []byte("apiVersion: apiextensions.k8s.io/v1\nkind: CustomResourceDefinition\nmetadata:\n  name: things.example.verif\n")}}
	kc := &orderClient{PrintingKubeClient: &kubefake.PrintingKubeClient{Out: io.Discard}}
	cfg := &action.Configuration{KubeClient: kc, Releases: storage.Init(driver.NewMemory()), Capabilities: chartutil.DefaultCapabilities.Copy()}
	in := action.NewInstall(cfg)
	in.ReleaseName, in.Namespace = "r", "default"
	_, err := in.Run(ch, map[string]any{"n": "x"})
	if err == nil || !strings.Contains(err.Error(), "values don't meet the specifications of the schema") {
		t.Fatalf("expected the schema rejection, got %v", err)
	}
	t.Logf("calls before the schema rejection: %v", kc.calls)
	if len(kc.calls) == 0 {
		t.Skip("defect not present: nothing was sent before the rejection")
	}
	if kc.calls[0] != "Build(kind: CustomResourceDefinition)" || kc.calls[1] != "Create" {
		t.Fatalf("unexpected calls %v", kc.calls)
	}
}
