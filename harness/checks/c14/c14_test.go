package c14

import (
	"encoding/json"
	"fmt"
	"testing"

	"verif/harness/internal/hx"
)

func TestSizes(t *testing.T) {
	for _, th := range []bool{false, true} {
		us := units(th)
		pairs, runs := map[string]int{}, 0
		for _, u := range us {
			pairs[u.Part] += len(u.Trees)
			for _, vt := range u.Trees {
				runs += 2 * len(entriesFor(u.Part, th, vt))
			}
		}
		twinRuns := 0
		for _, u := range twinUnits(th) {
			twinCases(u, th, func(Case, string) { twinRuns++ })
		}
		fmt.Printf("thorough=%v units=%d pairs=%v runs=%d + twins: units=%d pairs=%d runs=%d\n", th, len(us), pairs, runs, len(twinUnits(th)), twinPairs(th), twinRuns)
	}
}

// hand-written expectations for the evaluator (it is the oracle; it must be boring and right)
func TestEvaluator(t *testing.T) {
	full := `{"type":"object","properties":{"n":{"type":"integer","minimum":1,"maximum":5},"s":{"type":"string","enum":["a","b"]},` +
		`"o":{"type":"object","properties":{"k":{"type":"integer"}},"required":["k"],"additionalProperties":false}},"required":["n"]}`
	for _, c := range []struct {
		schema string
		v      map[string]any
		kw     string // "" = valid
		where  string
	}{
		{full, obj("n", 1.0), "", ""},
		{full, obj("n", int64(5), "s", "b", "o", obj("k", json.Number("2"))), "", ""},
		{full, obj("n", json.Number("1.0")), "", ""},
		{full, obj(), "required", "/n"},
		{full, obj("n", 0.0), "minimum", "/n"},
		{full, obj("n", 6.0), "maximum", "/n"},
		{full, obj("n", 1.5), "type", "/n"},
		{full, obj("n", json.Number("1.5")), "type", "/n"},
		{full, obj("n", "1"), "type", "/n"},
		{full, obj("n", true), "type", "/n"},
		{full, obj("n", 1.0, "s", "z"), "enum", "/s"},
		{full, obj("n", 1.0, "s", 3.0), "enum", "/s"},
		{full, obj("n", 1.0, "o", "str"), "type", "/o"},
		{full, obj("n", 1.0, "o", obj()), "required", "/o/k"},
		{full, obj("n", 1.0, "o", obj("k", 1.0, "extra", 2.0)), "additionalProperties", "/o/extra"},
		{full, obj("n", 1.0, "o", obj("k", "v")), "type", "/o/k"},
		{full, obj("n", 1.0, "other", obj("x", 1.0)), "", ""},
		{`{"type":"object","properties":{"n":{"enum":[1,2]}}}`, obj("n", int64(2)), "", ""},
		{`{"type":"object","properties":{"n":{"enum":[1,2]}}}`, obj("n", json.Number("2.0")), "", ""},
		{`{"type":"object","properties":{"n":{"enum":[1,2]}}}`, obj("n", "1"), "enum", "/n"},
		{`{"type":"object","properties":{"n":{"enum":[1,2]}}}`, obj("n", 3.0), "enum", "/n"},
		{`{"type":"object","properties":{"n":{"type":"boolean"}}}`, obj("n", false), "", ""},
		{`{"type":"object","properties":{"n":{"type":"boolean"}}}`, obj("n", 0.0), "type", "/n"},
		{`{"type":"object","additionalProperties":false,"properties":{"n":{"type":"integer"}}}`, obj("s", "a"), "additionalProperties", "/s"},
		{`{"type":"object","properties":{"global":{"type":"object","properties":{"g":{"type":"integer"}},"required":["g"]}}}`, obj("global", obj()), "required", "/global/g"},
	} {
		where, kw, ok := firstViolation(parseSchema(c.schema), c.v, "")
		if ok != (c.kw == "") || kw != c.kw || where != c.where {
			t.Errorf("%s on %s: got (%q,%q,%v), want (%q,%q)", c.schema, show(c.v), where, kw, ok, c.where, c.kw)
		}
	}
}

// hand-written expectations for the reference final values
func TestReference(t *testing.T) {
	schema := `{"type":"object","properties":{"n":{"type":"integer"},"global":{"type":"object","properties":{"g":{"type":"integer"}}}},"required":["n"]}`
	leaf := &hx.ChartSpec{Name: "leafc", Schema: schema, Values: obj("n", "leaf-default")}
	sub := &hx.ChartSpec{Name: "subc", Schema: schema, Values: obj("leafc", obj("enabled", true)), Subcharts: []*hx.ChartSpec{leaf},
		Deps: []hx.DepSpec{{Name: "leafc", Condition: "leafc.enabled"}}}
	root := &hx.ChartSpec{Name: "rootc", Values: obj("ali", obj("n", 1.0)), Subcharts: []*hx.ChartSpec{sub}, Deps: []hx.DepSpec{{Name: "subc", Alias: "ali", Condition: "ali.enabled"}}}
	names := func(vs []verdict) string {
		s := ""
		for _, v := range vs {
			s += v.Chart + ":" + v.Keyword + "@" + v.Where + " "
		}
		return s
	}
	for _, c := range []struct {
		user map[string]any
		want string
	}{
		{obj(), "leafc:type@/n "}, // sub gets n from the root's section; leaf's own default is a string
		{obj("ali", obj("leafc", obj("n", 2.0))), ""},
		{obj("ali", obj("n", "x", "leafc", obj("n", 2.0))), "ali:type@/n "},
		{obj("ali", obj("leafc", obj("enabled", false))), ""},
		{obj("ali", obj("enabled", false)), ""},
		{obj("ali", obj("enabled", false, "n", "x")), ""},
		{obj("global", obj("g", "x"), "ali", obj("leafc", obj("n", 2.0))), "ali:type@/global/g leafc:type@/global/g "},
		{obj("subc", obj("n", "x"), "ali", obj("leafc", obj("n", 2.0))), ""}, // the declared name is not the key once aliased
	} {
		if got := names(refVerdicts(root, c.user, false)); got != c.want {
			t.Errorf("user %s: got %q want %q", show(c.user), got, c.want)
		}
	}
	if got := names(refVerdicts(root, obj("ali", obj("enabled", false, "n", "x")), true)); got != "ali:type@/n leafc:type@/n " {
		t.Errorf("ignoreConditions: %q", got)
	}
}

func TestTypedRoundTrip(t *testing.T) {
	v := obj("a", int64(1), "b", json.Number("1.0"), "c", obj("d", 1.5, "e", "s", "f", true))
	b, _ := json.Marshal(encodeTyped(v))
	var back any
	json.Unmarshal(b, &back)
	if show(decodeTyped(back)) != show(v) {
		t.Fatalf("%s != %s", show(decodeTyped(back)), show(v))
	}
}
