package c14

import (
	"encoding/json"
	"fmt"
	"strings"

	"verif/harness/internal/hx"
)

// ---------- the schema family ----------

type body struct {
	ID     string
	Text   string
	Global bool // constrains .global.g instead of n/s/o (paired with the globals value trees)
}

func obj(kv ...any) map[string]any {
	m := map[string]any{}
	for i := 0; i < len(kv); i += 2 {
		m[kv[i].(string)] = kv[i+1]
	}
	return m
}

var (
	nConstraints = []struct {
		id string
		c  map[string]any
	}{
		{"n-", nil},
		{"n:int", obj("type", "integer")},
		{"n:int1..5", obj("type", "integer", "minimum", 1, "maximum", 5)},
		{"n:enum12", obj("enum", []any{1, 2})},
		{"n:str", obj("type", "string")},
		{"n:bool", obj("type", "boolean")},
	}
	sConstraints = []struct {
		id string
		c  map[string]any
	}{
		{"s-", nil},
		{"s:enumab", obj("type", "string", "enum", []any{"a", "b"})},
		{"s:str", obj("type", "string")},
	}
	oConstraints = []struct {
		id string
		c  map[string]any
	}{
		{"o-", nil},
		{"o:{k:int}!ap", obj("type", "object", "properties", obj("k", obj("type", "integer")), "required", []any{"k"}, "additionalProperties", false)},
		{"o:obj", obj("type", "object")},
	}
	requiredSets = [][]string{{}, {"n"}, {"s", "o"}, {"n", "s", "o"}, {"s"}, {"o"}, {"n", "s"}, {"n", "o"}}
)

func mkBody(ni, si, oi, ri int, rootAP bool) body {
	props := map[string]any{}
	if c := nConstraints[ni].c; c != nil {
		props["n"] = c
	}
	if c := sConstraints[si].c; c != nil {
		props["s"] = c
	}
	if c := oConstraints[oi].c; c != nil {
		props["o"] = c
	}
	s := obj("$schema", "http://json-schema.org/draft-07/schema#", "type", "object")
	if len(props) > 0 {
		s["properties"] = props
	}
	if req := requiredSets[ri]; len(req) > 0 {
		r := []any{}
		for _, k := range req {
			r = append(r, k)
		}
		s["required"] = r
	}
	id := fmt.Sprintf("%s,%s,%s,req[%s]", nConstraints[ni].id, sConstraints[si].id, oConstraints[oi].id, strings.Join(requiredSets[ri], ""))
	if rootAP {
		s["additionalProperties"] = false
		id += ",!ap"
	}
	b, _ := json.Marshal(s)
	return body{ID: id, Text: string(b)}
}

// bodiesFull enumerates the family, simplest first. The body without any
// constraint is kept as the first member (baseline "nothing to reject").
func bodiesFull(thorough bool) []body {
	nN, nS, nO, nR := 5, 2, 2, 3
	if thorough {
		nN, nS, nO, nR = len(nConstraints), len(sConstraints), len(oConstraints), 4
	}
	var out []body
	for ri := 0; ri < nR; ri++ {
		for oi := 0; oi < nO; oi++ {
			for si := 0; si < nS; si++ {
				for ni := 0; ni < nN; ni++ {
					out = append(out, mkBody(ni, si, oi, ri, false))
				}
			}
		}
	}
	return out
}

// bodiesReduced: every keyword of the family alone, and combined; these meet
// every placement and every route. In the thorough tier the reduced list is
// the first 40 members of the quick tier's full list.
func bodiesReduced(thorough bool) []body {
	if thorough {
		return bodiesFull(false)[:40] // required sets {} and {n}
	}
	var out []body
	for _, x := range [][4]int{{0, 0, 0, 0}, {1, 0, 0, 0}, {2, 0, 0, 0}, {3, 0, 0, 0}, {4, 0, 0, 0}, {0, 1, 0, 0}, {0, 0, 1, 0},
		{0, 0, 0, 1}, {0, 0, 0, 2}, {3, 1, 0, 1}, {2, 1, 1, 3}} {
		out = append(out, mkBody(x[0], x[1], x[2], x[3], false))
	}
	return out
}

// rootAPBodies: additionalProperties:false at the root of the schema. Only
// used where the chart's final values have no keys the chart author did not
// write (a root chart without subcharts): Helm adds a section per subchart to
// a parent's values and a "global" table to a subchart's.
func rootAPBodies(thorough bool) []body {
	out := []body{mkBody(1, 0, 0, 0, true), mkBody(1, 1, 1, 1, true)}
	if thorough {
		out = append(out, mkBody(2, 2, 2, 3, true), mkBody(0, 0, 0, 0, true))
	}
	return out
}

func globalBodies() []body {
	g := obj("type", "object", "properties", obj("g", obj("type", "integer")))
	a, _ := json.Marshal(obj("type", "object", "properties", obj("global", g)))
	g2 := obj("type", "object", "properties", obj("g", obj("type", "integer")), "required", []any{"g"})
	b, _ := json.Marshal(obj("type", "object", "properties", obj("global", g2)))
	return []body{{ID: "global.g:int", Text: string(a), Global: true}, {ID: "global.g:int,req", Text: string(b), Global: true}}
}

// ---------- contents: what the keys n, s, o are meant to end up as ----------

func contents(thorough bool) []map[string]any {
	// (quick leaves the non-integral number to part B, where the reduced
	// contents send n:1.5 through every placement and route)
	ns := []any{nil, 1.0, 7.0, "x"}
	ss := []any{nil, "a", "z"}
	os := []any{nil, obj("k", 1.0), obj("k", 1.0, "extra", 2.0)}
	if thorough {
		ns = append(ns, 1.5, 5.0, 0.0, true)
		ss = append(ss, 3.0)
		os = append(os, obj("k", "v"), "str")
	}
	var out []map[string]any
	for _, o := range os {
		for _, s := range ss {
			for _, n := range ns {
				c := map[string]any{}
				if n != nil {
					c["n"] = n
				}
				if s != nil {
					c["s"] = s
				}
				if o != nil {
					c["o"] = deepCopy(o)
				}
				out = append(out, c)
			}
		}
	}
	return out
}

// reducedContents hit every keyword of the family on both sides; they are
// sent through every route.
func reducedContents() []map[string]any {
	return []map[string]any{
		obj("n", 1.0, "s", "a", "o", obj("k", 1.0)),
		obj(),
		obj("n", "x"),
		obj("n", 7.0, "s", "a"),
		obj("s", "z", "o", obj("k", 1.0)),
		obj("n", 1.0, "o", obj("k", 1.0, "extra", 2.0)),
		obj("n", 1.5, "s", "a", "o", obj("k", 1.0)),
		obj("n", 2.0, "s", "b", "o", "str"),
		obj("n", 0.0, "s", "b"),
	}
}

var (
	goodFix = obj("n", 1.0, "s", "a", "o", obj("k", 1.0))
	badFix  = obj("n", "bad", "s", 9.0, "o", "str")
)

func restrict(fix, keysOf map[string]any) map[string]any {
	out := map[string]any{}
	for k := range keysOf {
		out[k] = deepCopy(fix[k])
	}
	return out
}

// ---------- layers and routes ----------

// layers says where values are written. D: the target chart's own
// values.yaml; P: its parent's values.yaml section for it; G: (sub-subchart
// only) the root chart's values.yaml section for it; U: the user's values at
// the target's path. RootGlobal / UserGlobal: "global" tables of the root
// chart's values.yaml and of the user's values.
type layers struct {
	D, P, G, U             map[string]any
	RootGlobal, UserGlobal map[string]any
	// URep: Go representation of the numbers in U and UserGlobal ("" = float64).
	URep string
	// CLI: build the user's values through pkg/cli/values Options.MergeValues:
	// "file" (-f) or "set" (--set).
	CLI string
}

type vtree struct {
	Route string
	L     layers
}

// routes turns one content into the value trees that deliver it. depth is the
// target's depth (0 root, 1 subchart, 2 sub-subchart); all says whether every
// route is wanted or only the two canonical ones (all in user values / all in
// the chart's own defaults).
func routes(c map[string]any, depth int, all bool) []vtree {
	cp := func() map[string]any { return copyMap(c) }
	out := []vtree{
		{"U", layers{U: cp()}},
		{"D", layers{D: cp()}},
	}
	if !all {
		return out
	}
	out = append(out,
		vtree{"U-int64", layers{U: cp(), URep: "int64"}},
		vtree{"U-jnum", layers{U: cp(), URep: "jnum"}},
		vtree{"U-jnum.0", layers{U: cp(), URep: "jnum.0"}},
		vtree{"U-file", layers{U: cp(), CLI: "file"}},
		vtree{"U-set", layers{U: cp(), CLI: "set"}},
		vtree{"U>D", layers{D: restrict(badFix, c), U: cp()}},
		vtree{"D<Ugood", layers{D: cp(), U: restrict(goodFix, c)}},
	)
	// split: n from the chart's defaults, s from the parent (or the user for a
	// root chart), o from the user; a two-key o is merged from two layers.
	sp := layers{D: map[string]any{}, P: map[string]any{}, U: map[string]any{}}
	for k, v := range c {
		switch k {
		case "n":
			sp.D[k] = v
		case "s":
			if depth > 0 {
				sp.P[k] = v
			} else {
				sp.U[k] = v
			}
		case "o":
			om, isMap := v.(map[string]any)
			if !isMap || len(om) < 2 {
				sp.U[k] = deepCopy(v)
				continue
			}
			first := sortedKeys(om)[0]
			sp.D[k] = obj(first, om[first])
			rest := copyMap(om)
			delete(rest, first)
			sp.U[k] = rest
		}
	}
	out = append(out, vtree{"split", sp})
	if depth > 0 {
		out = append(out,
			vtree{"P", layers{P: cp()}},
			vtree{"P>D", layers{D: restrict(badFix, c), P: cp()}},
			vtree{"U>P", layers{P: restrict(badFix, c), U: cp()}},
			vtree{"P<Ugood", layers{P: cp(), U: restrict(goodFix, c)}},
		)
	}
	if depth > 1 {
		out = append(out,
			vtree{"G", layers{G: cp()}},
			vtree{"G>P", layers{P: restrict(badFix, c), G: cp()}},
		)
	}
	return out
}

// globalTrees: the value g of .global arriving from the user, the root
// chart's defaults, the target's own defaults, and overridden.
func globalTrees() []vtree {
	var out []vtree
	for _, g := range []any{1.0, "x"} {
		gm := obj("g", g)
		out = append(out,
			vtree{"global:U", layers{UserGlobal: copyMap(gm)}},
			vtree{"global:root-defaults", layers{RootGlobal: copyMap(gm)}},
			vtree{"global:D", layers{D: obj("global", copyMap(gm))}},
			vtree{"global:U>root-defaults", layers{RootGlobal: obj("g", "bad"), UserGlobal: copyMap(gm)}},
			vtree{"global:root-defaults>D", layers{D: obj("global", obj("g", "bad")), RootGlobal: copyMap(gm)}},
			vtree{"global:U-int64", layers{UserGlobal: copyMap(gm), URep: "int64"}},
		)
	}
	out = append(out, vtree{"global:none", layers{}})
	return out
}

// ---------- placements ----------

type placement struct {
	Name  string
	Class string   // root | sub | leaf | disabled | both
	Chain []string // chart names from the root down to the target
	// Cond[i] is the condition of Chain[i] in its parent's Chart.yaml;
	// DefOn[i] / UserOn[i] ("", "true", "false") set that flag in the parent's
	// values.yaml / in the user's values.
	Cond, DefOn, UserOn []string
	Alias               string // alias of Chain[1]
	ExtraSub            bool   // the target (a root chart) has an unconstrained subchart of its own
	CRDs                bool   // root chart ships crds/
	CRDsAt              []int  // further charts of Chain that ship crds/ (index into Chain)
	ExtraSubCRDs        bool   // the ExtraSub subchart ships crds/
	SiblingCRDs         bool   // the root chart has a second, unconstrained subchart "sibc" that ships crds/
	Both                bool   // the schema is also put on the root chart, whose own defaults are goodFix
	RootAP              bool   // placement may carry root-level additionalProperties:false
}

func placements() []placement {
	r, s, l := "rootc", "subc", "leafc"
	e := []string{"", "", ""}
	return []placement{
		{Name: "root", Class: "root", Chain: []string{r}, RootAP: true},
		{Name: "sub", Class: "sub", Chain: []string{r, s}, Cond: e, DefOn: e, UserOn: e},
		{Name: "sub-off-by-default", Class: "disabled", Chain: []string{r, s}, Cond: []string{"", "subc.enabled"}, DefOn: []string{"", "false"}, UserOn: e},
		{Name: "leaf", Class: "leaf", Chain: []string{r, s, l}, Cond: e, DefOn: e, UserOn: e},
		{Name: "root-with-sub", Class: "root", Chain: []string{r}, ExtraSub: true},
		{Name: "sub-on-by-default", Class: "sub", Chain: []string{r, s}, Cond: []string{"", "subc.enabled"}, DefOn: []string{"", "true"}, UserOn: e},
		{Name: "sub-off-by-user", Class: "disabled", Chain: []string{r, s}, Cond: []string{"", "subc.enabled"}, DefOn: []string{"", "true"}, UserOn: []string{"", "false"}},
		{Name: "sub-on-by-user", Class: "sub", Chain: []string{r, s}, Cond: []string{"", "subc.enabled"}, DefOn: []string{"", "false"}, UserOn: []string{"", "true"}},
		{Name: "sub-alias", Class: "sub", Chain: []string{r, s}, Cond: e, DefOn: e, UserOn: e, Alias: "ali"},
		{Name: "leaf-parent-off", Class: "disabled", Chain: []string{r, s, l}, Cond: []string{"", "subc.enabled", ""}, DefOn: []string{"", "false", ""}, UserOn: e},
		{Name: "leaf-off", Class: "disabled", Chain: []string{r, s, l}, Cond: []string{"", "", "leafc.enabled"}, DefOn: []string{"", "", "false"}, UserOn: e},
		{Name: "root+sub", Class: "both", Chain: []string{r, s}, Cond: e, DefOn: e, UserOn: e, Both: true},
		{Name: "root-crds", Class: "root", Chain: []string{r}, CRDs: true},
	}
}

// crdPlacements: crds/ files somewhere in the chart tree, the violated schema
// somewhere else (or in the same chart). Helm installs the crds/ of the whole
// tree before anything is rendered, so the gate has to sit in front of that
// for every chart of the tree, not only for the top-level one.
func crdPlacements() []placement {
	r, s, l := "rootc", "subc", "leafc"
	e := []string{"", "", ""}
	return []placement{
		{Name: "crds-root/schema-sub", Class: "sub", Chain: []string{r, s}, Cond: e, DefOn: e, UserOn: e, CRDs: true},
		{Name: "crds-root/schema-sub-on-by-default", Class: "sub", Chain: []string{r, s}, Cond: []string{"", "subc.enabled"}, DefOn: []string{"", "true"}, UserOn: e, CRDs: true},
		{Name: "crds-root/schema-sub-alias", Class: "sub", Chain: []string{r, s}, Cond: e, DefOn: e, UserOn: e, Alias: "ali", CRDs: true},
		{Name: "crds-root/schema-leaf", Class: "leaf", Chain: []string{r, s, l}, Cond: e, DefOn: e, UserOn: e, CRDs: true},
		{Name: "crds-sub/schema-root", Class: "root", Chain: []string{r}, ExtraSub: true, ExtraSubCRDs: true},
		{Name: "crds-sub/schema-sub", Class: "sub", Chain: []string{r, s}, Cond: e, DefOn: e, UserOn: e, CRDsAt: []int{1}},
		{Name: "crds-sibling/schema-sub", Class: "sub", Chain: []string{r, s}, Cond: e, DefOn: e, UserOn: e, SiblingCRDs: true},
		{Name: "crds-root+sub/schema-sub", Class: "sub", Chain: []string{r, s}, Cond: e, DefOn: e, UserOn: e, CRDs: true, CRDsAt: []int{1}},
		{Name: "crds-root+sub/schema-root+sub", Class: "both", Chain: []string{r, s}, Cond: e, DefOn: e, UserOn: e, Both: true, CRDs: true, CRDsAt: []int{1}},
		{Name: "crds-sub/schema-leaf", Class: "leaf", Chain: []string{r, s, l}, Cond: e, DefOn: e, UserOn: e, CRDsAt: []int{1}},
		{Name: "crds-root/schema-sub-off-by-default", Class: "disabled", Chain: []string{r, s}, Cond: []string{"", "subc.enabled"}, DefOn: []string{"", "false"}, UserOn: e, CRDs: true},
	}
}

func newChart(name string) *hx.ChartSpec {
	return &hx.ChartSpec{Name: name, Version: "0.1.0", Resources: []hx.ResSpec{{Kind: "ConfigMap", Name: "cm-" + name, Variant: 1}}}
}

// build makes the chart tree and the user's values for one (placement,
// schema, layers). The user's values are float64-typed here; representation
// and CLI routes are applied by the caller.
func (p placement) build(schema string, L layers) (*hx.ChartSpec, map[string]any) {
	charts := make([]*hx.ChartSpec, len(p.Chain))
	keys := make([]string, len(p.Chain)) // key of chart i in its parent's values
	for i, n := range p.Chain {
		charts[i] = newChart(n)
		charts[i].Values = map[string]any{}
		keys[i] = n
		if i == 1 && p.Alias != "" {
			keys[i] = p.Alias
		}
	}
	user := map[string]any{}
	for i := 1; i < len(charts); i++ {
		charts[i-1].Subcharts = []*hx.ChartSpec{charts[i]}
		d := hx.DepSpec{Name: p.Chain[i], Condition: p.Cond[i]}
		if keys[i] != p.Chain[i] {
			d.Alias = keys[i]
		}
		charts[i-1].Deps = []hx.DepSpec{d}
		if p.Cond[i] != "" {
			flag := strings.Split(p.Cond[i], ".")
			if p.DefOn[i] != "" {
				put(charts[i-1].Values, flag[:len(flag)-1], obj(flag[len(flag)-1], p.DefOn[i] == "true"))
			}
			if p.UserOn[i] != "" {
				put(user, append(append([]string{}, keys[1:i]...), flag[:len(flag)-1]...), obj(flag[len(flag)-1], p.UserOn[i] == "true"))
			}
		}
	}
	if p.ExtraSub {
		sub := newChart("subc")
		sub.Values = obj("n", "sub-own")
		charts[0].Subcharts = []*hx.ChartSpec{sub}
		charts[0].Deps = []hx.DepSpec{{Name: "subc"}}
		sub.CRDs = p.ExtraSubCRDs
	}
	if p.SiblingCRDs {
		sib := newChart("sibc")
		sib.CRDs = true
		charts[0].Subcharts = append(charts[0].Subcharts, sib)
		charts[0].Deps = append(charts[0].Deps, hx.DepSpec{Name: "sibc"})
	}
	t := len(charts) - 1
	target := charts[t]
	target.Schema = schema
	put(target.Values, nil, L.D)
	if t >= 1 {
		put(charts[t-1].Values, keys[t:t+1], L.P)
	} else if len(L.P) > 0 {
		panic("c14: parent layer for a root chart")
	}
	if t >= 2 {
		put(charts[0].Values, keys[1:t+1], L.G)
	} else if len(L.G) > 0 {
		panic("c14: grandparent layer without grandparent")
	}
	if L.U != nil {
		put(user, keys[1:t+1], L.U)
	}
	if L.RootGlobal != nil {
		put(charts[0].Values, []string{"global"}, L.RootGlobal)
	}
	if L.UserGlobal != nil {
		put(user, []string{"global"}, L.UserGlobal)
	}
	if p.Both {
		charts[0].Schema = schema
		put(charts[0].Values, nil, copyMap(goodFix))
	}
	charts[0].CRDs = p.CRDs
	for _, i := range p.CRDsAt {
		charts[i].CRDs = true
	}
	return charts[0], user
}

// source names the layer that supplied the value at a JSON pointer inside
// the target's values ("none" when no layer has it, e.g. a missing required key).
func (L layers) source(pointer string) string {
	path := strings.Split(strings.TrimPrefix(pointer, "/"), "/")
	has := func(m map[string]any) bool {
		if m == nil || pointer == "" {
			return false
		}
		_, ok := lookup(m, strings.Join(path, "."))
		return ok
	}
	if path[0] == "global" {
		g := strings.Join(path[1:], ".")
		for _, c := range []struct {
			n string
			m map[string]any
		}{{"U", L.UserGlobal}, {"P", L.RootGlobal}} {
			if c.m != nil && len(path) > 1 {
				if _, ok := lookup(c.m, g); ok {
					return c.n
				}
			}
		}
	}
	switch {
	case has(L.U):
		return "U"
	case has(L.G):
		return "P"
	case has(L.P):
		return "P"
	case has(L.D):
		return "D"
	}
	return "none"
}

// ---------- Part H ----------

const big53 = "9007199254740992" // 2^53: the first integer whose successor a float64 cannot hold

func rawBody(id string, n map[string]any) body {
	b, _ := json.Marshal(obj("type", "object", "properties", obj("n", n)))
	return body{ID: id, Text: string(b)}
}

// bigBodies constrain n by exact integers at +-2^53.
func bigBodies() []body {
	return []body{
		rawBody("n:int<=2^53", obj("type", "integer", "maximum", json.Number(big53))),
		rawBody("n:enum[2^53]", obj("enum", []any{json.Number(big53)})),
		rawBody("n:const2^53", obj("const", json.Number(big53))),
		rawBody("n:int>=-2^53", obj("type", "integer", "minimum", json.Number("-"+big53))),
	}
}

// bigTrees: n just inside / just outside the bound, as int64, json.Number and through --set.
func bigTrees() []vtree {
	var out []vtree
	for _, v := range []struct {
		id string
		i  int64
	}{{"big", 9007199254740992}, {"big+1", 9007199254740993}, {"-big-1", -9007199254740993}, {"small", 5}} {
		out = append(out,
			vtree{v.id + ":U-int64", layers{U: obj("n", v.i), URep: "int64"}},
			vtree{v.id + ":U-jnum", layers{U: obj("n", json.Number(fmt.Sprint(v.i))), URep: "jnum"}},
			vtree{v.id + ":U-set", layers{U: obj("n", v.i), CLI: "set"}},
		)
	}
	return out
}

func nestedRequiredBody() body {
	o := obj("type", "object", "properties", obj("j", obj("type", "integer"), "k", obj("type", "integer")), "required", []any{"j", "k"})
	b, _ := json.Marshal(obj("type", "object", "properties", obj("o", o), "required", []any{"o"}))
	return body{ID: "o:{j:int,k:int}req[jk],req[o]", Text: string(b)}
}

// partialOverrideTrees: the members of o come from different layers; the
// user touches only a part of the table.
func partialOverrideTrees(depth int) []vtree {
	out := []vtree{
		{"partial:D{j,k}<U{k}", layers{D: obj("o", obj("j", 1.0, "k", 1.0)), U: obj("o", obj("k", 2.0))}},
		{"partial:D{j}+U{k}", layers{D: obj("o", obj("j", 1.0)), U: obj("o", obj("k", 2.0))}},
		{"partial:D{j,k}<U{k:bad}", layers{D: obj("o", obj("j", 1.0, "k", 1.0)), U: obj("o", obj("k", "x"))}},
		{"partial:D{k}<U{k}", layers{D: obj("o", obj("k", 1.0)), U: obj("o", obj("k", 2.0))}},
		{"partial:D{j,k}<U{k}file", layers{D: obj("o", obj("j", 1.0, "k", 1.0)), U: obj("o", obj("k", 2.0)), CLI: "file"}},
		{"partial:D{j,k}<U{k}set", layers{D: obj("o", obj("j", 1.0, "k", 1.0)), U: obj("o", obj("k", 2.0)), CLI: "set"}},
	}
	if depth > 0 {
		out = append(out,
			vtree{"partial:P{j,k}<U{k}", layers{P: obj("o", obj("j", 1.0, "k", 1.0)), U: obj("o", obj("k", 2.0))}},
			vtree{"partial:D{j}+P{k}", layers{D: obj("o", obj("j", 1.0)), P: obj("o", obj("k", 2.0))}},
		)
	}
	return out
}
