package c11

import (
	"encoding/json"
	"fmt"
	"regexp"
	"sort"
	"strconv"
	"strings"

	"helm.sh/helm/v4/pkg/action"
	chart "helm.sh/helm/v4/pkg/chart/v2"
	chartutil "helm.sh/helm/v4/pkg/chart/v2/util"
	"helm.sh/helm/v4/pkg/engine"
)

// ---------- the input handed to Helm ----------

const (
	probeTpl = "apiVersion: v1\nkind: ConfigMap\nmetadata:\n  name: probe-{{ .Chart.Name }}\ndata:\n  chart: {{ .Chart.Name | quote }}\n  values: {{ .Values | toJson | quote }}\n"
	hookTpl  = "apiVersion: v1\nkind: ConfigMap\nmetadata:\n  name: hook-{{ .Chart.Name }}\n  annotations:\n    helm.sh/hook: pre-install\ndata:\n  h: \"1\"\n"
	// a schema no values can satisfy / every values map satisfies
	rejectSchema = `{"type":"object","required":["c11-key-that-is-never-set"]}`
	acceptSchema = `{"type":"object","properties":{"k":{"type":"string"},"global":{"type":"object"}}}`
)

func crdDoc(name string) string {
	n := strings.ToLower(name)
	return "apiVersion: apiextensions.k8s.io/v1\nkind: CustomResourceDefinition\nmetadata:\n  name: " + n + "s.c11.verif\nspec:\n  group: c11.verif\n  names:\n    kind: K" + n + "\n    plural: " + n + "s\n  scope: Namespaced\n  versions:\n  - name: v1\n    served: true\n    storage: true\n"
}

// buildChart makes a fresh *chart.Chart (Helm mutates what it is given).
// reject names the chart definitions that get the rejecting schema; the other
// charts get a schema their values satisfy (install leg) or none.
func buildChart(d *ChartDef, reject map[string]bool, acceptSchemas bool) *chart.Chart {
	ch := &chart.Chart{Metadata: &chart.Metadata{Name: d.Name, Version: "0.1.0", APIVersion: "v2"}}
	ch.Templates = []*chart.File{
		{Name: "templates/probe.yaml", Data: []byte(probeTpl)},
		{Name: "templates/hook.yaml", Data: []byte(hookTpl)},
	}
	ch.Files = []*chart.File{{Name: "crds/crd.yaml", Data: []byte(crdDoc(d.Name))}}
	ch.Values = copyMap(d.Defaults)
	if reject[d.Name] {
		ch.Schema = []byte(rejectSchema)
	} else if acceptSchemas {
		ch.Schema = []byte(acceptSchema)
	}
	for _, dep := range d.Deps {
		ch.Metadata.Dependencies = append(ch.Metadata.Dependencies, &chart.Dependency{
			Name: dep.Name, Alias: dep.Alias, Condition: dep.Condition, Tags: append([]string{}, dep.Tags...), Version: "0.1.0", Repository: "file://../" + dep.Name})
	}
	for _, s := range d.Subs {
		ch.AddDependency(buildChart(s, reject, acceptSchemas))
	}
	return ch
}

// ---------- what Helm did with it ----------

type probe struct {
	Chart  string         `json:"chart"`
	Values map[string]any `json:"values"`
}

type observed struct {
	Err     string            `json:"err,omitempty"`
	Files   []string          `json:"files"`  // rendered template paths
	Probes  map[string]probe  `json:"probes"` // template path -> decoded probe
	CRDs    []string          `json:"crds"`   // CRD file names Helm would install
	Raw     map[string]string `json:"-"`
	Install *observedInstall  `json:"install,omitempty"`
}

type observedInstall struct {
	Err     string   `json:"err,omitempty"`
	Hooks   []string `json:"hooks"`   // paths of the hooks of the dry-run release
	Sources []string `json:"sources"` // "# Source:" lines of the manifest (templates and CRDs)
}

var (
	reChart  = regexp.MustCompile(`(?m)^  chart: (".*")$`)
	reValues = regexp.MustCompile(`(?m)^  values: (".*")$`)
	reSource = regexp.MustCompile(`(?m)^# Source: (.*)$`)
)

func decodeProbe(doc string) (probe, error) {
	var p probe
	m := reChart.FindStringSubmatch(doc)
	v := reValues.FindStringSubmatch(doc)
	if m == nil || v == nil {
		return p, fmt.Errorf("probe output not recognised: %q", doc)
	}
	name, err := strconv.Unquote(m[1])
	if err != nil {
		return p, err
	}
	js, err := strconv.Unquote(v[1])
	if err != nil {
		return p, err
	}
	p.Chart = name
	if err := json.Unmarshal([]byte(js), &p.Values); err != nil {
		return p, err
	}
	if p.Values == nil {
		p.Values = map[string]any{}
	}
	pruneEmpty(p.Values)
	return p, nil
}

// runHelm drives the real code: ProcessDependencies, ToRenderValues (with
// schema validation) and engine.Render, as action.Install does.
func runHelm(cs *Case, reject map[string]bool) (obs observed) {
	obs.Probes = map[string]probe{}
	defer func() {
		if r := recover(); r != nil {
			obs.Err = fmt.Sprintf("panic: %v", r)
		}
	}()
	ch := buildChart(cs.Root, reject, cs.Install || cs.LiveSchema != "")
	user := copyMap(cs.User)
	if err := chartutil.ProcessDependencies(ch, user); err != nil {
		obs.Err = "ProcessDependencies: " + err.Error()
		return
	}
	for _, crd := range ch.CRDObjects() {
		obs.CRDs = append(obs.CRDs, crd.Filename)
	}
	sort.Strings(obs.CRDs)
	vals, err := chartutil.ToRenderValues(ch, user, chartutil.ReleaseOptions{Name: "r", Namespace: "default", Revision: 1, IsInstall: true}, nil)
	if err != nil {
		obs.Err = "ToRenderValues: " + err.Error()
		return
	}
	out, err := engine.Render(ch, vals)
	if err != nil {
		obs.Err = "Render: " + err.Error()
		return
	}
	obs.Raw = out
	for p, doc := range out {
		obs.Files = append(obs.Files, p)
		if strings.HasSuffix(p, "/probe.yaml") {
			pr, err := decodeProbe(doc)
			if err != nil {
				obs.Err = "probe " + p + ": " + err.Error()
				return
			}
			obs.Probes[p] = pr
		}
	}
	sort.Strings(obs.Files)
	return
}

// runInstall is `helm template --include-crds`: action.Install, client-only dry run.
func runInstall(cs *Case, reject map[string]bool) (oi *observedInstall) {
	oi = &observedInstall{}
	defer func() {
		if r := recover(); r != nil {
			oi.Err = fmt.Sprintf("panic: %v", r)
		}
	}()
	inst := action.NewInstall(&action.Configuration{})
	inst.DryRun = true
	inst.ClientOnly = true
	inst.Replace = true
	inst.IncludeCRDs = true
	inst.ReleaseName = "r"
	inst.Namespace = "default"
	rel, err := inst.Run(buildChart(cs.Root, reject, true), copyMap(cs.User))
	if err != nil {
		oi.Err = err.Error()
		return
	}
	for _, h := range rel.Hooks {
		oi.Hooks = append(oi.Hooks, h.Path)
	}
	for _, m := range reSource.FindAllStringSubmatch(rel.Manifest, -1) {
		oi.Sources = append(oi.Sources, m[1])
	}
	sort.Strings(oi.Hooks)
	sort.Strings(oi.Sources)
	return
}
