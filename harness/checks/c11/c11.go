// Package c11: subcharts see only their own and global values; disabled
// dependencies vanish. Bounded-exhaustive enumeration of dependency trees,
// condition/tag truth tables and value trees, run through the real
// chartutil.ProcessDependencies + ToRenderValues (schema validation on) +
// engine.Render (and action.Install as client-only dry run), compared with a
// small reference of the documented semantics and with a reference-free
// non-interference differential.
package c11

import (
	"encoding/json"
	"fmt"
	"runtime/debug"
	"strings"

	"verif/harness/internal/core"
)

const prop = "C11"

func init() {
	core.Register(&core.Check{
		ID:    prop,
		Level: "exploration",
		Rule: "four exhaustively enumerated families over 7 (thorough 9) dependency trees (P>A; P>A,B; P>A>C; alias; same chart twice under two aliases, also with a nested C; P>A,B>C; aliased at depth 2/3): " +
			"E = per focus dependency the full truth table of condition kind (none | X.enabled | X.enabled,global.on | string path first | table path first) x tags (none|t1|t1,t2) x " +
			"every referenced switch in {absent,true,false,\"str\"} in the parent's defaults and in user values (16 pairs; 6 pairs on the larger trees in the quick tier) x backgrounds of the other dependencies; " +
			"V = value trees: for each leaf of {k, global.g, global.t.x, global.t.u.x} every subset of the tree's value positions (user sections and every chart's values.yaml sections at every level, incl. decoy sections under the real name of an aliased chart), " +
			"all sets of <=2 (thorough <=3) (leaf,position) atoms over 7 leaves, all pairs of positions x all non-empty subsets of 4 leaves, each with no/each dependency switched off; " +
			"C = condition paths with several table elements (addons.X.enabled, X.addons.feat.enabled, addons.extra.X.enabled) on four trees: the boolean at the full path x the element missing / present as a table x a boolean at the path with the element left out in {absent,true,false,\"str\"} in the parent's values.yaml and in user values x tags (a path resolves only if every element exists); " +
			"T = P>A>Y,B>X in both listing orders: A's own values.yaml ships tags.t1 in {absent,true,false,\"str\"} x tags.t2 in {absent,true,false} and optionally a section B.X.enabled, X below B carries {t1}|{t1,t2} (and optionally condition X.enabled), tags.t1 set / not set by P and the user: a sibling's own data never decides; " +
			"R = one chart used 2 (thorough 3) times under aliases at the same level, itself having 2..3 conditional dependencies (one of them optionally aliased): every assignment of {on, off in user values, off in the parent's values.yaml} to every (use, grandchild) x every use on / switched off; " +
			"N = non-interference differential per dependency (inner: values destined for it, outer: everything else); H = client-only dry-run install per combination of per-dependency off-switch kinds. " +
			"distinct = canonical JSON of the whole case (tree, Chart.yaml switches, every values.yaml, user values); every case has >=1 dependency and is non-trivial in that its expected render differs by construction from case to case (values name their source position)",
		Run:    run,
		Replay: replay,
		Assumptions: []string{
			"tags are read from the top parent's values (its values.yaml or user values), as documented; a `tags` table in a subchart's own values.yaml is generated only where the statement is unambiguous: it must not influence dependencies of its SIBLINGS (family T); whether it may switch that subchart's own dependencies is left open and not generated",
			"defaults of the keys a condition refers to are written in the parent chart's values.yaml (its section for the dependency, its own global table), never in the dependency's own values.yaml: the statement does not say whether a dependency's own default for `<name>.enabled` is part of the parent's effective values (Helm counts it except for aliased dependencies below the first level)",
			"no type conflicts between sources (a key is a table everywhere or a scalar everywhere); no null values; value layering as such belongs to C04",
			"an empty table and an absent key are identified when comparing .Values (Helm materialises `global: {}` and `<sub>: {}`)",
			"charts are built in memory (chart.Chart with AddDependency), as the chart loader would produce them; import-values is not used",
			"install leg runs action.Install with ClientOnly+DryRun+IncludeCRDs (what `helm template --include-crds` does); no cluster is involved",
		},
		RequiredFloors: []string{"reason:cond-true", "reason:cond-false", "reason:tags-false", "reason:tags-true", "reason:tags-true-beats-false", "reason:default",
			"condition-beats-tags", "nonbool-condition-skipped", "second-condition-path-decides", "alias-rendered", "same-chart-twice-one-off", "nested-under-disabled-parent",
			"global-ancestor-wins", "global-flows-two-levels", "decoy-section-not-seen", "disabled-keeps-parent-data", "live-schema-rejects", "disabled-schema-skipped",
			"install-hooks-filtered", "install-crds-filtered", "differential-ran",
			"sibling-own-tags-would-flip-grandchild/sibling-listed-before", "sibling-own-tags-would-flip-grandchild/sibling-listed-after",
			"multi-element-condition-path-decides", "unresolved-condition-path-shadowed-by-opposite-boolean",
			"repeated-chart-grandchild-off-under-first-use-only", "repeated-chart-nonlast-grandchild-off-under-both-uses"},
	})
}

// ---------- replay ----------

type replayData struct {
	Mode    string `json:"mode"` // case | pair
	Key     string `json:"key"`
	Case    *Case  `json:"case,omitempty"`
	Base    *Case  `json:"base,omitempty"`
	Variant *Case  `json:"variant,omitempty"`
	Dep     string `json:"dep,omitempty"`
}

func violationOf(rd replayData) *core.Violation {
	var p *problem
	switch rd.Mode {
	case "case":
		ps, _, _ := judge(rd.Case)
		p = hasKey(ps, rd.Key)
	case "pair":
		_, _, ob := judge(rd.Base)
		_, _, ov := judge(rd.Variant)
		p = hasKey(interference(rd.Base, rd.Variant, rd.Dep, ob, ov), rd.Key)
	}
	if p == nil {
		return nil
	}
	b, _ := json.Marshal(rd)
	what := p.Msg
	if rd.Mode == "case" {
		what += " | tree " + rd.Case.Root.Shape() + " | input " + rd.Case.String()
	} else {
		what += " | base " + rd.Base.String() + " | variant " + rd.Variant.String()
	}
	return &core.Violation{Property: prop, Key: p.key(), What: what, Replay: b}
}

func replay(_ *core.Ctx, data json.RawMessage) []core.Violation {
	var rd replayData
	if err := json.Unmarshal(data, &rd); err != nil {
		return nil
	}
	if v := violationOf(rd); v != nil {
		return []core.Violation{*v}
	}
	return nil
}

// ---------- exploration ----------

type explorer struct {
	posCache  map[string][]pos
	c         *core.Ctx
	minimised map[string]int
	samples   map[string]int
}

const minimiseCap = 6 // failing cases minimised and reported per key and shard; the rest are counted

func (e *explorer) report(cs *Case, ps []problem) {
	seen := map[string]bool{}
	for _, p := range ps {
		k := p.key()
		if seen[k] {
			continue
		}
		seen[k] = true
		e.c.Outcome("FAIL:" + p.Cat)
		if e.minimised[k] >= minimiseCap {
			e.c.Count("failing_cases_not_minimised", 1)
			continue
		}
		e.minimised[k]++
		min := minimise(cs, k)
		if v := violationOf(replayData{Mode: "case", Key: k, Case: min}); v != nil {
			e.c.Violate(prop, v.Key, v.What, json.RawMessage(v.Replay))
		}
	}
}

func (e *explorer) positionsOf(root *ChartDef) []pos {
	k := root.Shape()
	if ps, ok := e.posCache[k]; ok {
		return ps
	}
	if e.posCache == nil {
		e.posCache = map[string][]pos{}
	}
	e.posCache[k] = positions(root)
	return e.posCache[k]
}

// one runs one case of family fam and records coverage.
func (e *explorer) one(fam string, cs *Case) (observed, *model) {
	c := e.c
	c.Eval(1)
	c.Distinct(cs.String())
	ps, m, obs := judge(cs)
	e.cover(fam, cs, m, obs)
	if len(ps) > 0 {
		e.report(cs, ps)
	}
	return obs, m
}

func (e *explorer) cover(fam string, cs *Case, m *model, obs observed) {
	c := e.c
	on, off := 0, 0
	for _, n := range m.insts[1:] {
		if m.live[n] {
			on++
		} else {
			off++
		}
		c.Floor("reason:" + m.reason[n])
		d := n.dep
		byCond := strings.HasPrefix(m.reason[n], "cond-")
		if byCond && len(d.Tags) > 0 {
			// would the tags alone have said otherwise?
			alt := *d
			alt.Condition = ""
			tagsOnly, _ := refEnabled(&alt, nil, asMap(m.allTags))
			if tagsOnly != m.enabled[n] {
				c.Floor("condition-beats-tags")
			}
		}
		if parts := strings.Split(d.Condition, ","); len(parts) > 1 && byCond {
			if v, ok := getPath(m.parentEff[n], strings.Split(parts[0], ".")); !ok {
				c.Floor("second-condition-path-decides")
			} else if _, isBool := v.(bool); !isBool {
				c.Floor("second-condition-path-decides")
				c.Floor("nonbool-condition-skipped")
			}
		}
		if d.Condition != "" && !byCond {
			if v, ok := getPath(m.parentEff[n], strings.Split(strings.Split(d.Condition, ",")[0], ".")); ok {
				if _, isBool := v.(bool); !isBool {
					c.Floor("nonbool-condition-skipped")
				}
			}
		}
		if d.Alias != "" && m.live[n] {
			c.Floor("alias-rendered")
		}
		if n.parent != m.root && m.enabled[n] && !m.live[n] {
			c.Floor("nested-under-disabled-parent")
		}
		for _, o := range n.parent.kids {
			if o != n && o.def == n.def && m.live[o] != m.live[n] {
				c.Floor("same-chart-twice-one-off")
			}
		}
		if !m.live[n] && m.live[n.parent] {
			if v := asMap(m.views[n.parent][n.name]); len(pruneEmpty(copyMap(v))) > 0 {
				c.Floor("disabled-keeps-parent-data")
			}
			if obs.Err == "" {
				c.Floor("disabled-schema-skipped")
			}
		}
		if m.live[n] {
			if g, ok := getPath(m.views[n], []string{"global", "g"}); ok {
				own, _ := getPath(n.def.Defaults, []string{"global", "g"})
				if own != nil && own != g {
					c.Floor("global-ancestor-wins")
				}
				if s, _ := g.(string); n.parent != m.root && (strings.HasPrefix(s, m.root.name+"/:") || strings.HasPrefix(s, "user/:")) {
					c.Floor("global-flows-two-levels")
				}
			}
		}
	}
	for _, p := range e.positionsOf(cs.Root) {
		if p.Decoy {
			if v, ok := getPath(holderMap(cs, p.Holder), p.Path); ok && asMap(v) != nil && len(asMap(v)) > 0 {
				c.Floor("decoy-section-not-seen")
			}
		}
	}
	cls := "all-enabled"
	switch {
	case on == 0:
		cls = "all-disabled"
	case off > 0:
		cls = "some-disabled"
	}
	if obs.Err != "" {
		cls = "helm-error:" + errClass(obs.Err)
	}
	c.Outcome(fam + ":" + cls)
	if obs.Install != nil && obs.Install.Err == "" {
		if off > 0 {
			c.Floor("install-hooks-filtered")
			c.Floor("install-crds-filtered")
		}
	}
	if e.samples[fam+cls] < 1 {
		e.samples[fam+cls]++
		c.Sample(map[string]any{"family": fam, "class": cls, "case": cs, "rendered": obs.Files, "probes": obs.Probes, "crds": obs.CRDs, "install": obs.Install})
	}
}

func run(c *core.Ctx) {
	debug.SetGCPercent(400) // many small short-lived maps; the heap stays tiny
	e := &explorer{c: c, minimised: map[string]int{}, samples: map[string]int{}}
	th := c.Thorough()
	var ts []tree
	for _, t := range trees() {
		if t.thoroughOnly && !th {
			continue
		}
		ts = append(ts, t)
	}
	only := func(part string) bool { return c.Only == "" || c.Only == part }
	c.Bound("trees", fmt.Sprint(len(ts)))

	// E: enablement truth tables
	if only("E") {
		nE := 0
		for _, t := range ts {
			if t.noQuickE && !th {
				continue
			}
			enumE(t, t.full || (th && !t.noQuickE && !t.thoroughOnly), func(s eSpec) {
				nE++
				if !c.NextMine() {
					return
				}
				e.one("E", buildE(t, s))
			})
		}
		c.Bound("E_truth_table_rows", fmt.Sprint(nE))
		c.Bound("E_pairs_per_switch", map[bool]string{true: "16 on the six basic trees (with >=2 other dependencies: at most one of them off/tagged), 6 on the twice-aliased nested tree and the two depth-2/3 alias trees", false: "16 on P>A and P>a2=A, 6 elsewhere"}[th])
	}

	// V: value trees
	if only("V") {
		nV := 0
		atomsMax := 2
		if th {
			atomsMax = 3
		}
		for _, t := range ts {
			ps := positions(t.mk())
			offs := offChoices(t)
			offsC := offs
			if !th {
				offsC = offs[:1] // quick: the two-position products run with every dependency on
			}
			emitV := func(atoms []atom, offs []string) {
				for _, off := range offs {
					nV++
					if !c.NextMine() {
						continue
					}
					e.one("V", buildV(t, ps, atoms, off))
				}
			}
			// (a) one leaf, every subset of positions
			maxSet := len(ps)
			if len(ps) > 12 && !th {
				maxSet = 3
			}
			for _, l := range bitLeaves {
				forSubsets(len(ps), maxSet, func(idx []int) {
					atoms := make([]atom, len(idx))
					for i, p := range idx {
						atoms[i] = atom{p, l}
					}
					emitV(atoms, offs)
				})
			}
			// (b) every set of <= atomsMax (leaf, position) atoms over all seven leaves
			var universe []atom
			for p := range ps {
				for _, l := range append(append([]string{}, mainLeaves...), extraLeaves...) {
					universe = append(universe, atom{p, l})
				}
			}
			am := atomsMax
			if len(ps) > 12 && am > 2 {
				am = 2 // 15 positions x 7 leaves: pairs only
			}
			forSubsets(len(universe), am, func(idx []int) {
				if len(idx) < 2 {
					return // covered by (a)/(c)
				}
				atoms := make([]atom, len(idx))
				for i, u := range idx {
					atoms[i] = universe[u]
				}
				emitV(atoms, offs)
			})
			// (c) two positions, every pair of non-empty leaf subsets
			subs := subsetsOf(mainLeaves)
			for p1 := 0; p1 < len(ps); p1++ {
				for p2 := p1 + 1; p2 < len(ps); p2++ {
					for _, s1 := range subs {
						for _, s2 := range subs {
							if len(s1)+len(s2) <= atomsMax {
								continue // covered by (b)
							}
							var atoms []atom
							for _, l := range s1 {
								atoms = append(atoms, atom{p1, l})
							}
							for _, l := range s2 {
								atoms = append(atoms, atom{p2, l})
							}
							emitV(atoms, offsC)
						}
					}
				}
			}
			c.Bound("V_positions_"+t.ID, fmt.Sprint(len(ps)))
		}
		c.Bound("V_cases", fmt.Sprint(nV))
		c.Bound("V_atoms_max", fmt.Sprint(atomsMax))
	}

	// N: non-interference differential
	if only("N") {
		nN := 0
		for _, t := range ts {
			nN += e.differential(t)
		}
		c.Bound("N_runs", fmt.Sprint(nN))
	}

	// C: condition paths with several table elements, one of them missing
	if only("C") {
		nC := 0
		for _, t := range ts {
			switch t.ID {
			case "P-A", "P-A.B", "P-A-C", "P-a2=A":
			default:
				continue
			}
			enumC(t, func(s cSpec) {
				nC++
				if !c.NextMine() {
					return
				}
				cs := buildC(t, s)
				_, m := e.one("C", cs)
				f := findInst(m.root, s.Focus)
				full, short, _ := cPaths(s.Shape, f.name)
				fv, fok := getPath(m.parentEff[f], full)
				sv, sok := getPath(m.parentEff[f], short)
				_, fb := fv.(bool)
				sb, isb := sv.(bool)
				if fok && fb {
					c.Floor("multi-element-condition-path-decides")
				}
				if !fok && sok && isb && sb != m.enabled[f] {
					c.Floor("unresolved-condition-path-shadowed-by-opposite-boolean")
				}
			})
		}
		c.Bound("C_cases", fmt.Sprint(nC))
	}

	// T: tags (and a section named after the sibling) in a sibling subchart's own values.yaml
	if only("T") {
		nT := 0
		enumT(func(s tSpec) {
			nT++
			if !c.NextMine() {
				return
			}
			cs := buildT(s)
			_, m := e.one("T", cs)
			// vacuity: would X's switch come out differently if the sibling's own data were consulted?
			xi := findInst(m.root, "P.B.X")
			sib := findInst(m.root, "P.A").def.Defaults
			polluted := layer(m.parentEff[xi], asMap(sib["B"]))
			if alt, _ := refEnabled(xi.dep, polluted, layer(m.allTags, asMap(sib["tags"]))); alt != m.enabled[xi] {
				if s.BFirst {
					c.Floor("sibling-own-tags-would-flip-grandchild/sibling-listed-after")
				} else {
					c.Floor("sibling-own-tags-would-flip-grandchild/sibling-listed-before")
				}
			}
		})
		c.Bound("T_cases", fmt.Sprint(nT))
	}

	// R: the same chart several times at one level, with conditional grandchildren
	if only("R") {
		nR := 0
		specs := []repSpec{{2, 2, false}, {2, 3, false}, {2, 2, true}}
		if th {
			specs = append(specs, repSpec{3, 2, false}, repSpec{3, 3, false}, repSpec{2, 3, true}, repSpec{3, 2, true})
		}
		for _, r := range specs {
			n := 0
			enumR(r, r.NAl*r.NGc <= 6, func(aliasOff int, gc []int) {
				nR++
				n++
				if !c.NextMine() {
					return
				}
				cs := buildR(r, aliasOff, gc)
				_, m := e.one("R", cs)
				// vacuity: the uses of the chart really differ, and an earlier use prunes a non-last grandchild
				for i, al := range m.root.kids {
					for j, g := range al.kids {
						for _, al2 := range m.root.kids[i+1:] {
							if m.live[al] && m.live[al2] && !m.live[g] && m.live[al2.kids[j]] {
								c.Floor("repeated-chart-grandchild-off-under-first-use-only")
							}
							if m.live[al] && m.live[al2] && !m.live[g] && !m.live[al2.kids[j]] && j < len(al.kids)-1 {
								c.Floor("repeated-chart-nonlast-grandchild-off-under-both-uses")
							}
						}
					}
				}
			})
			c.Bound("R_cases_"+r.id(), fmt.Sprint(n))
		}
		c.Bound("R_cases", fmt.Sprint(nR))
	}

	// H: install leg and live-schema guard
	if only("H") {
		nH := 0
		for _, t := range ts {
			insts := allInsts(instantiate(t.mk(), nil, nil))[1:]
			n := 1
			for range insts {
				n *= 4
			}
			for code := 0; code < n; code++ {
				nH++
				if !c.NextMine() {
					continue
				}
				e.one("H", buildH(t, code))
			}
			for _, d := range allDefs(t.mk()) {
				nH++
				if !c.NextMine() {
					continue
				}
				cs := buildH(t, 0)
				cs.Install = false
				cs.LiveSchema = d.Name
				c.Eval(1)
				c.Distinct(cs.String())
				ps, _, obs := judge(cs)
				if len(ps) > 0 {
					e.report(cs, ps)
				} else if strings.Contains(obs.Err, "schema") {
					c.Floor("live-schema-rejects")
				}
				c.Outcome("H:live-schema:" + errClass(obs.Err))
			}
		}
		c.Bound("H_cases", fmt.Sprint(nH))
	}
}

// buildH: dependency i (pre-order) is in state (code / 4^i) % 4:
// 0 on, 1 switched off by the user's condition value, 2 switched off by a
// tag in user values, 3 switched off by the parent chart's values.yaml.
func buildH(t tree, code int) *Case {
	cs := &Case{Root: t.mk(), User: map[string]any{}, Install: true}
	richDefaults(cs.Root)
	r := instantiate(cs.Root, nil, nil)
	for i, n := range allInsts(r)[1:] {
		st := code % 4
		code /= 4
		tag := fmt.Sprintf("t%d", i+1)
		// the Chart.yaml entry is shared when the same chart definition is
		// instantiated under two parents (a1>C and a2>C): keep what is there
		if n.dep.Condition == "" {
			n.dep.Condition = n.name + ".enabled"
			n.dep.Tags = []string{tag}
		} else {
			tag = n.dep.Tags[0]
		}
		switch st {
		case 1:
			setPath(cs.User, append(userPath(n), "enabled"), false)
		case 2:
			setPath(cs.User, []string{"tags", tag}, false)
		case 3:
			setPath(n.parent.def.Defaults, []string{n.name, "enabled"}, false)
		}
	}
	return cs
}

// forSubsets calls f with every subset of {0..n-1} of size <= max, smallest first.
func forSubsets(n, max int, f func(idx []int)) {
	if max > n {
		max = n
	}
	for size := 0; size <= max; size++ {
		idx := make([]int, size)
		var rec func(start, k int)
		rec = func(start, k int) {
			if k == size {
				f(append([]int{}, idx...))
				return
			}
			for i := start; i < n; i++ {
				idx[k] = i
				rec(i+1, k+1)
			}
		}
		rec(0, 0)
	}
}

// ---------- N family ----------

// differential: for every dependency d of tree t, every assignment of the
// positions *not* destined for d (outer) is one sharded case; inside it every
// variant of the positions destined for d (inner), with d on and off, is run
// and compared with the inner-empty base run.
func (e *explorer) differential(t tree) int {
	c := e.c
	runs := 0
	ps := positions(t.mk())
	r := instantiate(t.mk(), nil, nil)
	allLeaves := append(append([]string{}, mainLeaves...), extraLeaves...)
	// outer sections are empty or hold outerLeaves; the inner kinds add leaves
	// the outer ones lack, so that anything escaping from d's values shows
	outerLeaves := []string{"k", "shared", "global.g", "global.t.x", "global.t.u.x"}
	innerKinds := [][]string{{"k"}, {"global.g", "global.t.y", "global.t.u.y"}, allLeaves}
	for _, d := range allInsts(r)[1:] {
		var inner, outer []int
		for i, p := range ps {
			all := true
			for _, t := range p.Targets {
				if !(t == d.dotted() || strings.HasPrefix(t, d.dotted()+".")) {
					all = false
				}
			}
			if all {
				inner = append(inner, i)
			} else {
				outer = append(outer, i)
			}
		}
		maxOuter := len(outer)
		if len(outer) > 8 {
			maxOuter = 3
			if c.Thorough() {
				maxOuter = 5
			}
		}
		forSubsets(len(outer), maxOuter, func(oidx []int) {
			nInner := (1<<len(inner))*len(innerKinds)*2 - 1
			runs += nInner + 1
			if !c.NextMine() {
				return
			}
			mk := func(iidx []int, leaves []string, off bool) *Case {
				var atoms []atom
				for _, o := range oidx {
					for _, l := range outerLeaves {
						atoms = append(atoms, atom{outer[o], l})
					}
				}
				for _, i := range iidx {
					for _, l := range leaves {
						atoms = append(atoms, atom{inner[i], l})
					}
				}
				offName := ""
				if off {
					offName = d.dotted()
				}
				return buildV(t, ps, atoms, offName)
			}
			base := mk(nil, nil, false)
			ob, _ := e.one("N", base)
			for _, off := range []bool{false, true} {
				for _, leaves := range innerKinds {
					forSubsets(len(inner), len(inner), func(iidx []int) {
						if len(iidx) == 0 && !off {
							return
						}
						if len(iidx) == 0 && off && len(leaves) != 1 {
							return
						}
						v := mk(iidx, leaves, off)
						ov, _ := e.one("N", v)
						c.Floor("differential-ran")
						if ips := interference(base, v, d.dotted(), ob, ov); len(ips) > 0 {
							e.reportPair(base, v, d.dotted(), ips)
						}
					})
				}
			}
		})
	}
	return runs
}

func (e *explorer) reportPair(base, v *Case, dep string, ps []problem) {
	p := ps[0]
	e.c.Outcome("FAIL:" + p.Cat)
	if e.minimised[p.key()] >= minimiseCap {
		e.c.Count("failing_cases_not_minimised", 1)
		return
	}
	e.minimised[p.key()]++
	// shrink: drop value leaves (from both runs when both have them)
	fails := func(b, x *Case) bool {
		_, _, ob := judge(b)
		_, _, ox := judge(x)
		return hasKey(interference(b, x, dep, ob, ox), p.key()) != nil
	}
	drop := func(cs *Case, holder string, path []string) {
		delPath(holderMap(cs, holder), path)
	}
	for pass := 0; pass < 3; pass++ {
		changed := false
		for _, h := range append([]string{"user"}, defNames(v.Root)...) {
			var lp [][]string
			leafPaths(nil, holderMap(v, h), &lp)
			for _, path := range lp {
				if path[len(path)-1] == "enabled" {
					continue
				}
				b2, v2 := base.clone(), v.clone()
				drop(b2, h, path)
				drop(v2, h, path)
				if fails(b2, v2) {
					base, v, changed = b2, v2, true
				}
			}
		}
		if !changed {
			break
		}
	}
	if viol := violationOf(replayData{Mode: "pair", Key: p.key(), Base: base, Variant: v, Dep: dep}); viol != nil {
		e.c.Violate(prop, viol.Key, viol.What, json.RawMessage(viol.Replay))
	}
}

func defNames(d *ChartDef) []string {
	var out []string
	seen := map[string]bool{}
	for _, x := range allDefs(d) {
		if !seen[x.Name] {
			seen[x.Name] = true
			out = append(out, x.Name)
		}
	}
	return out
}
