package c11

import (
	"encoding/json"
	"sort"
	"strings"
)

// ---------- case description (this is what replays store) ----------

// DepDef is one `dependencies:` entry of a Chart.yaml.
type DepDef struct {
	Name      string   `json:"name"`
	Alias     string   `json:"alias,omitempty"`
	Condition string   `json:"condition,omitempty"`
	Tags      []string `json:"tags,omitempty"`
}

// Eff is the name the dependency goes by in the parent (alias if set).
func (d DepDef) Eff() string {
	if d.Alias != "" {
		return d.Alias
	}
	return d.Name
}

// ChartDef is one chart directory: values.yaml, Chart.yaml dependencies, charts/.
type ChartDef struct {
	Name     string         `json:"name"`
	Defaults map[string]any `json:"defaults,omitempty"`
	Deps     []DepDef       `json:"deps,omitempty"`
	Subs     []*ChartDef    `json:"subs,omitempty"`
}

// Case is one complete input: a chart tree and the user-supplied values.
type Case struct {
	Root *ChartDef      `json:"root"`
	User map[string]any `json:"user,omitempty"`
	// Install additionally runs the tree through action.Install
	// (client-only dry run, CRDs included) and checks hooks / CRDs / manifest sources.
	Install bool `json:"install,omitempty"`
	// LiveSchema puts a rejecting schema into this *enabled* chart (vacuity
	// guard: the schema probe must be able to fire).
	LiveSchema string `json:"live_schema,omitempty"`
}

func (c *Case) clone() *Case {
	b, _ := json.Marshal(c)
	var out Case
	json.Unmarshal(b, &out)
	return &out
}

func (c *Case) String() string { b, _ := json.Marshal(c); return string(b) }

// Shape is the dependency tree in one token, e.g. "P>[a1=A,a2=A>[C]]".
func (d *ChartDef) Shape() string {
	var sb strings.Builder
	sb.WriteString(d.Name)
	if len(d.Deps) == 0 {
		return sb.String()
	}
	sb.WriteString(">[")
	for i, dep := range d.Deps {
		if i > 0 {
			sb.WriteString(",")
		}
		if dep.Alias != "" {
			sb.WriteString(dep.Alias + "=")
		}
		if s := d.sub(dep.Name); s != nil {
			sb.WriteString(s.Shape())
		} else {
			sb.WriteString(dep.Name + "?")
		}
	}
	sb.WriteString("]")
	return sb.String()
}

func (d *ChartDef) sub(name string) *ChartDef {
	for _, s := range d.Subs {
		if s.Name == name {
			return s
		}
	}
	return nil
}

// ---------- plain-map helpers ----------

func asMap(v any) map[string]any {
	m, _ := v.(map[string]any)
	return m
}

func deepCopy(v any) any {
	switch t := v.(type) {
	case map[string]any:
		out := make(map[string]any, len(t))
		for k, x := range t {
			out[k] = deepCopy(x)
		}
		return out
	case []any:
		out := make([]any, len(t))
		for i, x := range t {
			out[i] = deepCopy(x)
		}
		return out
	}
	return v
}

func copyMap(m map[string]any) map[string]any {
	if m == nil {
		return map[string]any{}
	}
	return deepCopy(m).(map[string]any)
}

// setPath sets m[p0][p1]...[pn] = v creating tables on the way.
func setPath(m map[string]any, path []string, v any) {
	for _, k := range path[:len(path)-1] {
		n, ok := m[k].(map[string]any)
		if !ok {
			n = map[string]any{}
			m[k] = n
		}
		m = n
	}
	m[path[len(path)-1]] = v
}

func getPath(m map[string]any, path []string) (any, bool) {
	for i, k := range path {
		v, ok := m[k]
		if !ok {
			return nil, false
		}
		if i == len(path)-1 {
			return v, true
		}
		if m = asMap(v); m == nil {
			return nil, false
		}
	}
	return nil, false
}

// delPath removes a leaf and then every table that became empty.
func delPath(m map[string]any, path []string) {
	if len(path) == 1 {
		delete(m, path[0])
		return
	}
	n := asMap(m[path[0]])
	if n == nil {
		return
	}
	delPath(n, path[1:])
	if len(n) == 0 {
		delete(m, path[0])
	}
}

// pruneEmpty removes empty tables (an empty table and an absent key are the
// same thing for this property; Helm creates `global: {}` and `sub: {}`).
func pruneEmpty(m map[string]any) map[string]any {
	for k, v := range m {
		if t, ok := v.(map[string]any); ok {
			pruneEmpty(t)
			if len(t) == 0 {
				delete(m, k)
			}
		}
	}
	return m
}

// flatten lists the leaves of a value tree as dotted path -> JSON scalar.
func flatten(prefix string, m map[string]any, out map[string]string) {
	for k, v := range m {
		p := k
		if prefix != "" {
			p = prefix + "." + k
		}
		if t, ok := v.(map[string]any); ok {
			flatten(p, t, out)
			continue
		}
		b, _ := json.Marshal(v)
		out[p] = string(b)
	}
}

func leafPaths(prefix []string, m map[string]any, out *[][]string) {
	keys := make([]string, 0, len(m))
	for k := range m {
		keys = append(keys, k)
	}
	sort.Strings(keys)
	for _, k := range keys {
		p := append(append([]string{}, prefix...), k)
		if t, ok := m[k].(map[string]any); ok && len(t) > 0 {
			leafPaths(p, t, out)
			continue
		}
		*out = append(*out, p)
	}
}

// ---------- reference model ----------

// inst is one *use* of a chart in the tree (a chart depended on twice under
// two aliases has two instances).
type inst struct {
	name   string // name the parent knows it by: alias, else chart name ("" never)
	def    *ChartDef
	dep    *DepDef // nil for the root
	parent *inst
	kids   []*inst
}

func instantiate(def *ChartDef, dep *DepDef, parent *inst) *inst {
	n := &inst{name: def.Name, def: def, dep: dep, parent: parent}
	if dep != nil {
		n.name = dep.Eff()
	}
	for i := range def.Deps {
		d := &def.Deps[i]
		if s := def.sub(d.Name); s != nil {
			n.kids = append(n.kids, instantiate(s, d, n))
		}
	}
	return n
}

func (n *inst) fullPath() string {
	if n.parent == nil {
		return n.name
	}
	return n.parent.fullPath() + "/charts/" + n.name
}

func (n *inst) dotted() string {
	if n.parent == nil {
		return n.name
	}
	return n.parent.dotted() + "." + n.name
}

// layer merges value sources given highest precedence first: the first
// source that has a leaf wins, tables are merged key by key.
func layer(srcs ...map[string]any) map[string]any {
	out := map[string]any{}
	for _, s := range srcs {
		under(out, s)
	}
	return out
}

func under(dst, src map[string]any) {
	for k, v := range src {
		have, ok := dst[k]
		if !ok {
			dst[k] = deepCopy(v)
			continue
		}
		if hm, sm := asMap(have), asMap(v); hm != nil && sm != nil {
			under(hm, sm)
		}
	}
}

// view is what the templates of instance n must see as .Values.
//
//	sect  every value source destined for n, highest precedence first: the
//	      user's section for n, then the sections for n in the defaults of
//	      its ancestors from the root down;
//	ancG  the global table its parent sees (ancestors win over n's own).
//
// A child that is not live stays what it is in the sources: plain data under
// its key, without the child's defaults and without globals pushed into it.
func view(n *inst, sect []map[string]any, ancG map[string]any, live func(*inst) bool) map[string]any {
	srcs := append(append([]map[string]any{}, sect...), n.def.Defaults)
	v := layer(srcs...)
	g := layer(ancG, asMap(v["global"]))
	if len(g) > 0 {
		v["global"] = g
	}
	for _, kid := range n.kids {
		if !live(kid) {
			continue
		}
		var ks []map[string]any
		for _, s := range srcs {
			if m := asMap(s[kid.name]); m != nil {
				ks = append(ks, m)
			}
		}
		v[kid.name] = view(kid, ks, g, live)
	}
	return v
}

// refEnabled is the documented rule: the first condition path that resolves
// to a boolean in the parent's effective values decides; otherwise the
// dependency is disabled exactly when some tag is false and none is true.
func refEnabled(d *DepDef, parentEff map[string]any, tags map[string]any) (bool, string) {
	for _, p := range strings.Split(d.Condition, ",") {
		if p == "" {
			continue
		}
		if v, ok := getPath(parentEff, strings.Split(p, ".")); ok {
			if b, isBool := v.(bool); isBool {
				if b {
					return true, "cond-true"
				}
				return false, "cond-false"
			}
		}
	}
	anyTrue, anyFalse := false, false
	for _, t := range d.Tags {
		if b, isBool := tags[t].(bool); isBool {
			if b {
				anyTrue = true
			} else {
				anyFalse = true
			}
		}
	}
	switch {
	case anyFalse && !anyTrue:
		return false, "tags-false"
	case anyTrue && anyFalse:
		return true, "tags-true-beats-false"
	case anyTrue:
		return true, "tags-true"
	}
	return true, "default"
}

// model is the reference verdict for a whole case.
type model struct {
	root    *inst
	insts   []*inst          // pre-order
	enabled map[*inst]bool   // the dependency's own switch
	live    map[*inst]bool   // enabled and every ancestor enabled
	reason  map[*inst]string // why (outcome classes)
	views   map[*inst]map[string]any
	// bookkeeping for coverage classes
	allTags   map[string]any
	parentEff map[*inst]map[string]any
}

func reference(cs *Case) *model {
	m := &model{root: instantiate(cs.Root, nil, nil), enabled: map[*inst]bool{}, live: map[*inst]bool{}, reason: map[*inst]string{}, views: map[*inst]map[string]any{}, parentEff: map[*inst]map[string]any{}}
	user := cs.User
	if user == nil {
		user = map[string]any{}
	}
	// effective values with every declared dependency present: this is what
	// the switches are read from.
	all := view(m.root, []map[string]any{user}, nil, func(*inst) bool { return true })
	tags := asMap(all["tags"])
	m.allTags = tags
	var walk func(n *inst, eff map[string]any, alive bool)
	walk = func(n *inst, eff map[string]any, alive bool) {
		m.insts = append(m.insts, n)
		for _, k := range n.kids {
			e, why := refEnabled(k.dep, eff, tags)
			m.parentEff[k] = eff
			m.enabled[k], m.reason[k], m.live[k] = e, why, e && alive
			sub := asMap(eff[k.name])
			if sub == nil {
				sub = map[string]any{}
			}
			walk(k, sub, e && alive)
		}
	}
	m.live[m.root], m.enabled[m.root] = true, true
	walk(m.root, all, true)
	// what every live chart sees once the disabled ones are gone
	top := view(m.root, []map[string]any{user}, nil, func(n *inst) bool { return m.live[n] })
	var collect func(n *inst, v map[string]any)
	collect = func(n *inst, v map[string]any) {
		m.views[n] = v
		for _, k := range n.kids {
			if m.live[k] {
				collect(k, asMap(v[k.name]))
			}
		}
	}
	collect(m.root, top)
	return m
}
