package c11

import (
	"fmt"
	"testing"
)

// TestExploreSubchartTags documents (without judging) what Helm does with a
// `tags` table in a subchart's values.yaml: outside the generated alphabet.
func TestExploreSubchartTags(t *testing.T) {
	quiet()
	mk := func(aTags, userATags, userRootTags any) *Case {
		a := &ChartDef{Name: "A", Deps: []DepDef{{Name: "C", Tags: []string{"t1"}}}, Subs: []*ChartDef{leaf("C")}, Defaults: map[string]any{}}
		cs := &Case{Root: &ChartDef{Name: "P", Deps: []DepDef{{Name: "A"}}, Subs: []*ChartDef{a}}, User: map[string]any{}}
		if aTags != nil {
			setPath(a.Defaults, []string{"tags", "t1"}, aTags)
		}
		if userATags != nil {
			setPath(cs.User, []string{"A", "tags", "t1"}, userATags)
		}
		if userRootTags != nil {
			setPath(cs.User, []string{"tags", "t1"}, userRootTags)
		}
		return cs
	}
	for _, c := range []struct{ a, ua, ur any }{{false, nil, nil}, {false, true, nil}, {false, nil, true}, {nil, false, nil}, {nil, nil, false}} {
		cs := mk(c.a, c.ua, c.ur)
		obs := runHelm(cs, nil)
		fmt.Printf("A.values tags.t1=%v user A.tags.t1=%v user tags.t1=%v -> files %v err=%q\n", c.a, c.ua, c.ur, obs.Files, obs.Err)
	}
}

// TestExploreOwnDefaultOfConditionKey documents (without judging) whether a
// dependency's *own* values.yaml default for its condition key switches it:
// it does at the first level (also under an alias) and for un-aliased nested
// dependencies, but not for an aliased dependency below the first level (the
// alias is applied after the parent's values were coalesced). Outside the
// generated alphabet: the statement does not say whether such a default is part
// of "the parent's effective values".
func TestExploreOwnDefaultOfConditionKey(t *testing.T) {
	quiet()
	off := map[string]any{"enabled": false}
	cases := map[string]*Case{
		"P>[A], A/values.yaml enabled=false, condition A.enabled":     {Root: &ChartDef{Name: "P", Deps: []DepDef{{Name: "A", Condition: "A.enabled"}}, Subs: []*ChartDef{{Name: "A", Defaults: off}}}},
		"P>[a2=A], A/values.yaml enabled=false, condition a2.enabled": {Root: &ChartDef{Name: "P", Deps: []DepDef{{Name: "A", Alias: "a2", Condition: "a2.enabled"}}, Subs: []*ChartDef{{Name: "A", Defaults: off}}}},
		"P>[A>[C]], C/values.yaml enabled=false, condition C.enabled": {Root: &ChartDef{Name: "P", Deps: []DepDef{{Name: "A"}}, Subs: []*ChartDef{
			{Name: "A", Deps: []DepDef{{Name: "C", Condition: "C.enabled"}}, Subs: []*ChartDef{{Name: "C", Defaults: off}}}}}},
		"P>[A>[c2=C]], C/values.yaml enabled=false, condition c2.enabled": {Root: &ChartDef{Name: "P", Deps: []DepDef{{Name: "A"}}, Subs: []*ChartDef{
			{Name: "A", Deps: []DepDef{{Name: "C", Alias: "c2", Condition: "c2.enabled"}}, Subs: []*ChartDef{{Name: "C", Defaults: off}}}}}},
	}
	for name, cs := range cases {
		obs := runHelm(cs, nil)
		fmt.Printf("%-62s -> rendered %v\n", name, obs.Files)
	}
}
