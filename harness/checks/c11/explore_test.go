package c11

import (
	"fmt"
	"testing"
)

// TestExploreSubchartTags documents (without judging) what Helm does with a
// `tags` table in a subchart's values.yaml: outside the generated alphabet.
func TestExploreSubchartTags(t *testing.T) {
	quiet()
	mk := func(aTags, userATags, userRootTags any) *Case {
		a := &ChartDef{Name: "A", Deps: []DepDef{{Name: "C", Tags: []string{"t1"}}}, Subs: []*ChartDef{leaf("C")}, Defaults: map[string]any{}}
		cs := &Case{Root: &ChartDef{Name: "P", Deps: []DepDef{{Name: "A"}}, Subs: []*ChartDef{a}}, User: map[string]any{}}
		if aTags != nil {
			setPath(a.Defaults, []string{"tags", "t1"}, aTags)
		}
		if userATags != nil {
			setPath(cs.User, []string{"A", "tags", "t1"}, userATags)
		}
		if userRootTags != nil {
			setPath(cs.User, []string{"tags", "t1"}, userRootTags)
		}
		return cs
	}
	for _, c := range []struct{ a, ua, ur any }{{false, nil, nil}, {false, true, nil}, {false, nil, true}, {nil, false, nil}, {nil, nil, false}} {
		cs := mk(c.a, c.ua, c.ur)
		obs := runHelm(cs, nil)
		fmt.Printf("A.values tags.t1=%v user A.tags.t1=%v user tags.t1=%v -> files %v err=%q\n", c.a, c.ua, c.ur, obs.Files, obs.Err)
	}
}
