package c11

import (
	"fmt"
	"reflect"
	"testing"

	chartutil "helm.sh/helm/v4/pkg/chart/v2/util"
	"helm.sh/helm/v4/pkg/engine"
)

// experiment: the same *chart.Chart object processed and rendered twice
func TestExperimentSecondUse(t *testing.T) {
	quiet()
	diff, n := 0, 0
	for _, r := range []repSpec{{2, 2, false}, {2, 3, false}, {2, 2, true}, {3, 2, false}} {
		enumR(r, true, func(aliasOff int, gc []int) {
			cs := buildR(r, aliasOff, gc)
			ch := buildChart(cs.Root, nil, false)
			var outs []map[string]string
			var metas []string
			for i := 0; i < 3; i++ {
				user := copyMap(cs.User)
				if err := chartutil.ProcessDependencies(ch, user); err != nil {
					t.Fatal(err)
				}
				vals, err := chartutil.ToRenderValues(ch, user, chartutil.ReleaseOptions{Name: "r"}, nil)
				if err != nil {
					t.Fatal(err)
				}
				out, err := engine.Render(ch, vals)
				if err != nil {
					t.Fatal(err)
				}
				outs = append(outs, out)
				m := ""
				for _, d := range ch.Dependencies() {
					m += d.Name() + "["
					for _, md := range d.Metadata.Dependencies {
						m += md.Name + ","
					}
					m += "]"
				}
				metas = append(metas, m)
			}
			n++
			if !reflect.DeepEqual(outs[0], outs[1]) || !reflect.DeepEqual(outs[1], outs[2]) || metas[0] != metas[1] || metas[1] != metas[2] {
				diff++
				if diff < 4 {
					fmt.Println("second use differs:", cs.String(), metas)
				}
			}
		})
	}
	fmt.Println("cases", n, "differing on second/third use", diff)
}
