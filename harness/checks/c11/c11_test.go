package c11

import (
	"fmt"
	"io"
	"log"
	"log/slog"
	"testing"
	"time"
)

func quiet() {
	log.SetOutput(io.Discard)
	slog.SetDefault(slog.New(slog.NewTextHandler(io.Discard, nil)))
}

// TestSmoke runs one case of each family, prints it and asserts agreement.
func TestSmoke(t *testing.T) {
	quiet()
	for _, tr := range trees() {
		cs := buildH(tr, 1)
		ps, m, obs := judge(cs)
		fmt.Println(tr.ID, cs.Root.Shape(), "files", obs.Files, "err", obs.Err, "install", obs.Install)
		for _, n := range m.insts {
			fmt.Println("   ", n.dotted(), "live", m.live[n], m.reason[n], js(m.views[n]))
		}
		for _, p := range ps {
			t.Errorf("%s: %+v", tr.ID, p)
		}
		fmt.Println("   positions", positions(tr.mk()))
	}
}

func TestTiming(t *testing.T) {
	quiet()
	tr := trees()[5]
	n := 0
	t0 := time.Now()
	enumE(tr, false, func(s eSpec) {
		n++
		if n%50 != 0 {
			return
		}
		judge(buildE(tr, s))
	})
	fmt.Printf("E rows %d, %.3f ms per judged case\n", n, float64(time.Since(t0).Microseconds())/1000/float64(n/50))
}
