package c11

import (
	"fmt"
	"io"
	"log"
	"log/slog"
	"testing"
	"time"
)

func quiet() {
	log.SetOutput(io.Discard)
	slog.SetDefault(slog.New(slog.NewTextHandler(io.Discard, nil)))
}

// TestSmoke runs one case of each family, prints it and asserts agreement.
func TestSmoke(t *testing.T) {
	quiet()
	for _, tr := range trees() {
		cs := buildH(tr, 1)
		ps, m, obs := judge(cs)
		fmt.Println(tr.ID, cs.Root.Shape(), "files", obs.Files, "err", obs.Err, "install", obs.Install)
		for _, n := range m.insts {
			fmt.Println("   ", n.dotted(), "live", m.live[n], m.reason[n], js(m.views[n]))
		}
		for _, p := range ps {
			t.Errorf("%s: %+v", tr.ID, p)
		}
		fmt.Println("   positions", positions(tr.mk()))
	}
}

func TestTiming(t *testing.T) {
	quiet()
	tr := trees()[5]
	n := 0
	t0 := time.Now()
	enumE(tr, false, func(s eSpec) {
		n++
		if n%50 != 0 {
			return
		}
		judge(buildE(tr, s))
	})
	fmt.Printf("E rows %d, %.3f ms per judged case\n", n, float64(time.Since(t0).Microseconds())/1000/float64(n/50))
}

// TestReferenceDocsExample checks the reference against the worked example of
// Helm's chart documentation ("Tags and Condition fields in dependencies").
func TestReferenceDocsExample(t *testing.T) {
	mk := func(user map[string]any) *model {
		root := &ChartDef{Name: "parentchart",
			Defaults: map[string]any{"subchart1": map[string]any{"enabled": true}, "tags": map[string]any{"front-end": false, "back-end": true}},
			Deps: []DepDef{
				{Name: "subchart1", Condition: "subchart1.enabled,global.subchart1.enabled", Tags: []string{"front-end", "subchart1"}},
				{Name: "subchart2", Condition: "subchart2.enabled,global.subchart2.enabled", Tags: []string{"back-end", "subchart2"}},
			},
			Subs: []*ChartDef{leaf("subchart1"), leaf("subchart2")}}
		return reference(&Case{Root: root, User: user})
	}
	m := mk(nil)
	if !m.live[m.root.kids[0]] || !m.live[m.root.kids[1]] {
		t.Errorf("docs: both subcharts enabled (condition beats front-end=false; back-end=true): got %v %v", m.live[m.root.kids[0]], m.live[m.root.kids[1]])
	}
	m = mk(map[string]any{"tags": map[string]any{"front-end": true}, "subchart2": map[string]any{"enabled": false}})
	if !m.live[m.root.kids[0]] || m.live[m.root.kids[1]] {
		t.Errorf("docs: --set tags.front-end=true --set subchart2.enabled=false => subchart1 on, subchart2 off: got %v %v", m.live[m.root.kids[0]], m.live[m.root.kids[1]])
	}
	// global flow of the docs ("Global Values"): set at the top, seen by every descendant, not flowing upward
	c := &ChartDef{Name: "C", Defaults: map[string]any{"global": map[string]any{"fromC": 1.0}}}
	a := &ChartDef{Name: "A", Deps: []DepDef{{Name: "C"}}, Subs: []*ChartDef{c}}
	m = reference(&Case{Root: &ChartDef{Name: "P", Deps: []DepDef{{Name: "A"}}, Subs: []*ChartDef{a}}, User: map[string]any{"global": map[string]any{"app": "MyWordPress"}}})
	if js(m.views[m.root.kids[0].kids[0]]) != `{"global":{"app":"MyWordPress","fromC":1}}` || js(m.views[m.root.kids[0]]["global"]) != `{"app":"MyWordPress"}` {
		t.Errorf("global flow: C sees %s, A sees %s", js(m.views[m.root.kids[0].kids[0]]), js(m.views[m.root.kids[0]]))
	}
}

func TestCountE(t *testing.T) {
	for _, th := range []bool{false, true} {
		total := 0
		for _, tr := range trees() {
			if (tr.thoroughOnly || tr.noQuickE) && !th {
				continue
			}
			n := 0
			enumE(tr, tr.full || (th && !tr.noQuickE && !tr.thoroughOnly), func(eSpec) { n++ })
			fmt.Println(th, tr.ID, n)
			total += n
		}
		fmt.Println("thorough", th, "E total", total)
	}
}
