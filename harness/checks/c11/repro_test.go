package c11

import (
	"fmt"
	"sort"
	"testing"

	chart "helm.sh/helm/v4/pkg/chart/v2"
	chartutil "helm.sh/helm/v4/pkg/chart/v2/util"
	"helm.sh/helm/v4/pkg/engine"
)

// TestReproGlobalLeak is the plain-API reproduction of finding
// scope/.../sees-foreign/global.t.u.*: a subchart's nested global table leaks
// into the parent's and the sibling's .Values. It uses nothing of the harness.
func TestReproGlobalLeak(t *testing.T) {
	quiet()
	tpl := []*chart.File{{Name: "templates/v.txt", Data: []byte("{{ .Values | toJson }}")}}
	mk := func(name string, vals map[string]any) *chart.Chart {
		return &chart.Chart{Metadata: &chart.Metadata{Name: name, Version: "0.1.0", APIVersion: "v2"}, Templates: tpl, Values: vals}
	}
	a := mk("a", map[string]any{"global": map[string]any{"t": map[string]any{"u": map[string]any{"fromA": "secret-of-a"}}}})
	b := mk("b", map[string]any{})
	p := mk("p", map[string]any{"global": map[string]any{"t": map[string]any{"u": map[string]any{"fromP": "p"}}}})
	p.AddDependency(a, b)
	p.Metadata.Dependencies = []*chart.Dependency{{Name: "a", Version: "0.1.0"}, {Name: "b", Version: "0.1.0"}}
	user := map[string]any{}
	if err := chartutil.ProcessDependencies(p, user); err != nil {
		t.Fatal(err)
	}
	vals, err := chartutil.ToRenderValues(p, user, chartutil.ReleaseOptions{Name: "r"}, nil)
	if err != nil {
		t.Fatal(err)
	}
	out, err := engine.Render(p, vals)
	if err != nil {
		t.Fatal(err)
	}
	fmt.Println("parent :", out["p/templates/v.txt"])
	fmt.Println("sibling:", out["p/charts/b/templates/v.txt"])
	fmt.Println("a      :", out["p/charts/a/templates/v.txt"])
}

// TestReproRepeatedChartWithAliasedDependency is the plain-API reproduction of
// finding alias/unexpected-path + enable/missing-though-enabled/default on the
// R family: chart "sub" is used twice (aliases a, b) and itself depends on "x"
// under the alias "x2". Below the second use the alias is lost: x is rendered
// under its real name and its condition is never evaluated.
func TestReproRepeatedChartWithAliasedDependency(t *testing.T) {
	quiet()
	tpl := []*chart.File{{Name: "templates/v.txt", Data: []byte("{{ .Chart.Name }}")}}
	mk := func(name string, deps ...*chart.Dependency) *chart.Chart {
		return &chart.Chart{Metadata: &chart.Metadata{Name: name, Version: "0.1.0", APIVersion: "v2", Dependencies: deps}, Templates: tpl, Values: map[string]any{}}
	}
	sub := mk("sub", &chart.Dependency{Name: "x", Version: "0.1.0", Alias: "x2", Condition: "x2.enabled"})
	sub.AddDependency(mk("x"))
	p := mk("p", &chart.Dependency{Name: "sub", Version: "0.1.0", Alias: "a"}, &chart.Dependency{Name: "sub", Version: "0.1.0", Alias: "b"})
	p.AddDependency(sub)
	user := map[string]any{"b": map[string]any{"x2": map[string]any{"enabled": false}}}
	if err := chartutil.ProcessDependencies(p, user); err != nil {
		t.Fatal(err)
	}
	vals, err := chartutil.ToRenderValues(p, user, chartutil.ReleaseOptions{Name: "r"}, nil)
	if err != nil {
		t.Fatal(err)
	}
	out, err := engine.Render(p, vals)
	if err != nil {
		t.Fatal(err)
	}
	var paths []string
	for k := range out {
		paths = append(paths, k)
	}
	sort.Strings(paths)
	fmt.Println("user sets b.x2.enabled=false; rendered:", paths)
}
