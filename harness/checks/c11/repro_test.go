package c11

import (
	"fmt"
	"testing"

	chart "helm.sh/helm/v4/pkg/chart/v2"
	chartutil "helm.sh/helm/v4/pkg/chart/v2/util"
	"helm.sh/helm/v4/pkg/engine"
)

// TestReproGlobalLeak is the plain-API reproduction of finding
// scope/.../sees-foreign/global.t.u.*: a subchart's nested global table leaks
// into the parent's and the sibling's .Values. It uses nothing of the harness.
func TestReproGlobalLeak(t *testing.T) {
	quiet()
	tpl := []*chart.File{{Name: "templates/v.txt", Data: []byte("{{ .Values | toJson }}")}}
	mk := func(name string, vals map[string]any) *chart.Chart {
		return &chart.Chart{Metadata: &chart.Metadata{Name: name, Version: "0.1.0", APIVersion: "v2"}, Templates: tpl, Values: vals}
	}
	a := mk("a", map[string]any{"global": map[string]any{"t": map[string]any{"u": map[string]any{"fromA": "secret-of-a"}}}})
	b := mk("b", map[string]any{})
	p := mk("p", map[string]any{"global": map[string]any{"t": map[string]any{"u": map[string]any{"fromP": "p"}}}})
	p.AddDependency(a, b)
	p.Metadata.Dependencies = []*chart.Dependency{{Name: "a", Version: "0.1.0"}, {Name: "b", Version: "0.1.0"}}
	user := map[string]any{}
	if err := chartutil.ProcessDependencies(p, user); err != nil {
		t.Fatal(err)
	}
	vals, err := chartutil.ToRenderValues(p, user, chartutil.ReleaseOptions{Name: "r"}, nil)
	if err != nil {
		t.Fatal(err)
	}
	out, err := engine.Render(p, vals)
	if err != nil {
		t.Fatal(err)
	}
	fmt.Println("parent :", out["p/templates/v.txt"])
	fmt.Println("sibling:", out["p/charts/b/templates/v.txt"])
	fmt.Println("a      :", out["p/charts/a/templates/v.txt"])
}
