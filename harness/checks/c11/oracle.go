package c11

import (
	"encoding/json"
	"fmt"
	"sort"
	"strings"

	"verif/harness/internal/core"
)

// problem is one disagreement between Helm and the property.
type problem struct {
	Cat    string // error | enable | alias | scope | crd | install | schema | noninterference
	Where  string // chart (dotted path through the tree) or file: for messages and ordering only
	Detail string // class of the disagreement: who sees / misses what kind of value of whom
	Msg    string
}

// key names the class of the failure independent of the concrete tree: the
// roles of the charts involved (root/child/grandchild, ancestor/sibling/...),
// the kind of value and the rule that decided.
func (p problem) key() string { return core.SanitizeKey(p.Cat + "/" + p.Detail) }

func role(n *inst) string {
	d := 0
	for x := n; x.parent != nil; x = x.parent {
		d++
	}
	switch d {
	case 0:
		return "root"
	case 1:
		return "child"
	case 2:
		return "grandchild"
	}
	return fmt.Sprintf("depth%d", d)
}

func rootOf(n *inst) *inst {
	for n.parent != nil {
		n = n.parent
	}
	return n
}

func within(n, top *inst) bool {
	for x := n; x != nil; x = x.parent {
		if x == top {
			return true
		}
	}
	return false
}

// relate says what dst is to viewer.
func relate(viewer, dst *inst) string {
	switch {
	case dst == viewer:
		return "own"
	case within(viewer, dst):
		return "ancestor"
	case within(dst, viewer):
		return "descendant"
	case dst.parent == viewer.parent:
		return "sibling"
	}
	return "other-branch"
}

// resolve follows a section path from instance h; names that are no
// dependency of the chart reached are plain data of that chart.
func resolve(h *inst, path []string) (*inst, bool) {
	for _, name := range path {
		var next *inst
		for _, k := range h.kids {
			if k.name == name {
				next = k
			}
		}
		if next == nil {
			return h, false
		}
		h = next
	}
	return h, true
}

// targetsOf lists the instances a section (holder, path) is destined for.
func targetsOf(root *inst, holder string, path []string) (out []*inst) {
	if holder == "user" {
		t, _ := resolve(root, path)
		return []*inst{t}
	}
	for _, h := range allInsts(root) {
		if h.def.Name == holder {
			t, _ := resolve(h, path)
			out = append(out, t)
		}
	}
	return
}

// srcRelation decodes a source-tagged value ("holder/sec.tion:leaf") and says
// whose value it is relative to the viewer.
func srcRelation(viewer *inst, jsonVal string) string {
	var s string
	if json.Unmarshal([]byte(jsonVal), &s) != nil {
		return "switch-value"
	}
	i, j := strings.Index(s, "/"), strings.Index(s, ":")
	if i < 0 || j < i {
		return "switch-value"
	}
	var path []string
	if s[i+1:j] != "" {
		path = strings.Split(s[i+1:j], ".")
	}
	// a values.yaml used by several instances has several targets: name the nearest
	best := ""
	rank := map[string]int{"own": 0, "descendant": 1, "ancestor": 2, "sibling": 3, "other-branch": 4}
	for _, t := range targetsOf(rootOf(viewer), s[:i], path) {
		if r := relate(viewer, t); best == "" || rank[r] < rank[best] {
			best = r
		}
	}
	if best == "" {
		return "nobody's"
	}
	return best + "'s"
}

// leafKind classifies a leaf path as seen by chart n: own key / global of
// some nesting depth, possibly inside the section of one of its children.
func leafKind(n *inst, leaf string) string {
	parts := strings.Split(leaf, ".")
	where := "own"
	for len(parts) > 1 {
		var next *inst
		for _, k := range n.kids {
			if k.name == parts[0] {
				next = k
			}
		}
		if next == nil {
			break
		}
		n, parts, where = next, parts[1:], "in-child-section"
	}
	_ = where
	if parts[0] == "global" {
		return fmt.Sprintf("global-depth%d", len(parts)-1)
	}
	return "nonglobal"
}

func sortProblems(ps []problem) {
	sort.SliceStable(ps, func(i, j int) bool {
		a, b := ps[i], ps[j]
		if a.Cat != b.Cat {
			return a.Cat < b.Cat
		}
		if a.Where != b.Where {
			return a.Where < b.Where
		}
		if a.Detail != b.Detail {
			return a.Detail < b.Detail
		}
		return a.Msg < b.Msg
	})
}

// rejectSet decides which chart definitions carry the rejecting schema: the
// ones the reference says are disabled in every place they are used.
func rejectSet(cs *Case, m *model) map[string]bool {
	liveDefs := map[string]bool{}
	for _, n := range m.insts {
		if m.live[n] {
			liveDefs[n.def.Name] = true
		}
	}
	rej := map[string]bool{}
	for _, n := range m.insts {
		if !liveDefs[n.def.Name] {
			rej[n.def.Name] = true
		}
	}
	if cs.LiveSchema != "" {
		rej[cs.LiveSchema] = true
	}
	return rej
}

func errClass(e string) string {
	switch {
	case strings.HasPrefix(e, "panic"):
		return "panic"
	case strings.Contains(e, "schema"):
		return "schema-rejected"
	}
	if i := strings.Index(e, ":"); i > 0 {
		return e[:i]
	}
	return "error"
}

// judge runs one case on Helm and compares with the reference.
func judge(cs *Case) (ps []problem, m *model, obs observed) {
	m = reference(cs)
	rej := rejectSet(cs, m)
	obs = runHelm(cs, rej)
	ps = compare(cs, m, obs)
	if len(ps) == 1 && ps[0].Cat == "error" && ps[0].Detail == "schema-rejected" {
		// Why was a rejecting schema consulted? Look again without the
		// schemas: if the chart set is wrong, that is the failure to report.
		if again := compare(cs, m, runHelm(cs, nil)); len(again) > 0 && (again[0].Cat == "enable" || again[0].Cat == "alias") {
			for i := range again {
				again[i].Msg += " [first seen as: " + ps[0].Msg + "]"
			}
			ps = again
		}
	}
	if cs.Install && cs.LiveSchema == "" && len(ps) == 0 {
		obs.Install = runInstall(cs, rej)
		ps = append(ps, compareInstall(m, obs.Install)...)
	}
	sortProblems(ps)
	return
}

func compare(cs *Case, m *model, obs observed) (ps []problem) {
	if cs.LiveSchema != "" {
		// vacuity guard: a rejecting schema in a live chart must stop the render
		if !strings.Contains(obs.Err, "schema") {
			ps = append(ps, problem{"schema", cs.LiveSchema, "live-schema-not-checked", fmt.Sprintf("chart %s is enabled and its schema rejects the values, but Helm rendered anyway (err=%q)", cs.LiveSchema, obs.Err)})
		}
		return
	}
	if obs.Err != "" {
		detail := errClass(obs.Err)
		msg := fmt.Sprintf("Helm fails with %q although every enabled chart is well-formed", obs.Err)
		if detail == "schema-rejected" {
			var dis []string
			for _, n := range m.insts {
				if !m.live[n] {
					dis = append(dis, n.dotted())
				}
			}
			msg = fmt.Sprintf("schema of a disabled dependency was checked (disabled: %v): %s", dis, obs.Err)
		}
		return []problem{{"error", cs.Root.Name, detail, msg}}
	}
	wantFiles := map[string]*inst{}
	wantCRDs := []string{}
	for _, n := range m.insts {
		if m.live[n] {
			wantFiles[n.fullPath()+"/templates/probe.yaml"] = n
			wantFiles[n.fullPath()+"/templates/hook.yaml"] = n
			wantCRDs = append(wantCRDs, n.fullPath()+"/crds/crd.yaml")
		}
	}
	sort.Strings(wantCRDs)
	byPath := map[string]*inst{}
	for _, n := range m.insts {
		byPath[n.fullPath()] = n
	}
	got := map[string]bool{}
	for _, f := range obs.Files {
		got[f] = true
		if _, ok := wantFiles[f]; ok {
			continue
		}
		dir := f[:strings.Index(f, "/templates/")]
		if n, ok := byPath[dir]; ok {
			ps = append(ps, problem{"enable", n.dotted(), "rendered-though-disabled/" + m.reason[firstOff(m, n)] + repeatedQual(m, firstOff(m, n)),
				fmt.Sprintf("template %s was rendered but dependency %s is disabled (%s)", f, firstOff(m, n).dotted(), m.reason[firstOff(m, n)])})
		} else {
			q := ""
			if i := strings.LastIndex(dir, "/charts/"); i > 0 {
				if par, ok := byPath[dir[:i]]; ok && usesOf(m, par.def) > 1 {
					q = "/under-repeated-chart"
				}
			}
			ps = append(ps, problem{"alias", dir, "unexpected-path" + q, fmt.Sprintf("template %s was rendered under a path no dependency goes by", f)})
		}
	}
	for f, n := range wantFiles {
		if !got[f] {
			if n.parent != nil && !got[n.parent.fullPath()+"/templates/probe.yaml"] {
				continue // follows from the missing parent
			}
			ps = append(ps, problem{"enable", n.dotted(), "missing-though-enabled/" + reasonOf(m, n) + repeatedQual(m, n),
				fmt.Sprintf("template %s is missing but %s is enabled (%s)", f, n.dotted(), reasonOf(m, n))})
		}
	}
	if len(ps) > 0 {
		return ps // a wrong set of charts makes every other comparison a consequence
	}
	if !equalStrings(obs.CRDs, wantCRDs) {
		ps = append(ps, problem{"crd", cs.Root.Name, "crd-set", fmt.Sprintf("CRDs Helm would install %v, want exactly those of the enabled charts %v", obs.CRDs, wantCRDs)})
	}
	// what the probes saw
	for f, n := range wantFiles {
		if !strings.HasSuffix(f, "/probe.yaml") || !got[f] {
			continue
		}
		pr := obs.Probes[f]
		if pr.Chart != n.name {
			ps = append(ps, problem{"alias", n.dotted(), "chart-name/" + role(n), fmt.Sprintf("%s: .Chart.Name is %q, the dependency goes by %q", f, pr.Chart, n.name)})
		}
		want := pruneEmpty(copyMap(m.views[n]))
		gl, wl := map[string]string{}, map[string]string{}
		flatten("", pr.Values, gl)
		flatten("", want, wl)
		for leaf, gv := range gl {
			wv, ok := wl[leaf]
			switch {
			case !ok:
				ps = append(ps, problem{"scope", n.dotted(), "sees-foreign/" + leafKind(n, leaf) + "/" + srcRelation(n, gv), fmt.Sprintf("%s sees %s=%s which is not destined for it (expected .Values %s)", n.dotted(), leaf, gv, js(want))})
			case wv != gv:
				ps = append(ps, problem{"scope", n.dotted(), "wrong-value/" + leafKind(n, leaf) + "/" + srcRelation(n, gv), fmt.Sprintf("%s sees %s=%s, must be %s (expected .Values %s)", n.dotted(), leaf, gv, wv, js(want))})
			}
		}
		for leaf, wv := range wl {
			if _, ok := gl[leaf]; !ok {
				ps = append(ps, problem{"scope", n.dotted(), "lost/" + leafKind(n, leaf) + "/" + srcRelation(n, wv), fmt.Sprintf("%s does not see %s=%s (got .Values %s)", n.dotted(), leaf, wv, js(pr.Values))})
			}
		}
	}
	return ps
}

// usesOf counts the places a chart definition is used in the tree.
func usesOf(m *model, d *ChartDef) int {
	k := 0
	for _, n := range m.insts {
		if n.def == d {
			k++
		}
	}
	return k
}

// repeatedQual marks failures about a dependency of a chart that is itself
// used more than once in the tree (the uses share what Helm copies shallowly).
func repeatedQual(m *model, n *inst) string {
	if n.parent == nil || usesOf(m, n.parent.def) < 2 {
		return ""
	}
	if n.dep != nil && n.dep.Alias != "" {
		return "/aliased-under-repeated-chart"
	}
	return "/under-repeated-chart"
}

func js(v any) string { b, _ := json.Marshal(v); return string(b) }

func firstOff(m *model, n *inst) *inst {
	// the outermost disabled dependency on the way to n
	var chain []*inst
	for x := n; x != nil; x = x.parent {
		chain = append([]*inst{x}, chain...)
	}
	for _, x := range chain {
		if x.dep != nil && !m.enabled[x] {
			return x
		}
	}
	return n
}

func reasonOf(m *model, n *inst) string {
	if n.dep == nil {
		return "root"
	}
	return m.reason[n]
}

func equalStrings(a, b []string) bool {
	if len(a) != len(b) {
		return false
	}
	for i := range a {
		if a[i] != b[i] {
			return false
		}
	}
	return true
}

func compareInstall(m *model, oi *observedInstall) (ps []problem) {
	if oi.Err != "" {
		return []problem{{"install", m.root.name, errClass(oi.Err), fmt.Sprintf("client-only dry-run install fails with %q", oi.Err)}}
	}
	var hooks, sources []string
	for _, n := range m.insts {
		if m.live[n] {
			hooks = append(hooks, n.fullPath()+"/templates/hook.yaml")
			sources = append(sources, n.fullPath()+"/templates/probe.yaml", n.fullPath()+"/crds/crd.yaml")
		}
	}
	sort.Strings(hooks)
	sort.Strings(sources)
	if !equalStrings(oi.Hooks, hooks) {
		ps = append(ps, problem{"install", m.root.name, "hook-set", fmt.Sprintf("hooks of the dry-run release %v, want exactly those of the enabled charts %v", oi.Hooks, hooks)})
	}
	if !equalStrings(oi.Sources, sources) {
		ps = append(ps, problem{"install", m.root.name, "manifest-sources", fmt.Sprintf("manifest sources (templates and CRDs) %v, want exactly those of the enabled charts %v", oi.Sources, sources)})
	}
	return
}

// ---------- non-interference differential (no reference involved) ----------

// interference compares two runs whose inputs differ only in what is destined
// for the dependency `dotted` (its section in user values / ancestor defaults,
// its own and its descendants' defaults): every other chart must render
// byte-identically, ancestors outside the dependency's key.
func interference(base, variant *Case, dotted string, ob, ov observed) (ps []problem) {
	if ob.Err != "" || ov.Err != "" {
		return nil // judged by the other oracle
	}
	root := instantiate(base.Root, nil, nil)
	var target *inst
	var all []*inst
	var walk func(n *inst)
	walk = func(n *inst) {
		all = append(all, n)
		if n.dotted() == dotted {
			target = n
		}
		for _, k := range n.kids {
			walk(k)
		}
	}
	walk(root)
	if target == nil {
		return nil
	}
	tp := target.fullPath()
	for _, n := range all {
		np := n.fullPath()
		if np == tp || strings.HasPrefix(np, tp+"/") {
			continue
		}
		f := np + "/templates/probe.yaml"
		pb, okb := ob.Probes[f]
		pv, okv := ov.Probes[f]
		if okb != okv {
			ps = append(ps, problem{"noninterference", n.dotted(), "presence-changed/by-values-of-" + relate(n, target), fmt.Sprintf("%s is rendered in one run and not in the other although only values for %s differ", f, dotted)})
			continue
		}
		if !okb {
			continue
		}
		vb, vv := copyMap(pb.Values), copyMap(pv.Values)
		if strings.HasPrefix(tp, np+"/") { // ancestor: look outside the dependency's key
			var rel []string
			for x := target; x != n; x = x.parent {
				rel = append([]string{x.name}, rel...)
			}
			delPath(vb, rel)
			delPath(vv, rel)
		}
		if js(vb) != js(vv) {
			ps = append(ps, problem{"noninterference", n.dotted(), "values-changed/by-values-of-" + relate(n, target),
				fmt.Sprintf("%s sees %s in one run and %s in the other although only values destined for %s differ", n.dotted(), js(vb), js(vv), dotted)})
		}
	}
	sortProblems(ps)
	return
}

// ---------- minimisation ----------

func hasKey(ps []problem, key string) *problem {
	for i := range ps {
		if ps[i].key() == key {
			return &ps[i]
		}
	}
	return nil
}

// shrinks lists one-step simplifications of a case (deterministic order).
func shrinks(cs *Case) []*Case {
	var out []*Case
	add := func(mod func(c *Case) bool) {
		c := cs.clone()
		if mod(c) {
			out = append(out, c)
		}
	}
	// drop a dependency (and its chart when nothing else uses it)
	var defs []*ChartDef
	var collect func(d *ChartDef)
	collect = func(d *ChartDef) {
		defs = append(defs, d)
		for _, s := range d.Subs {
			collect(s)
		}
	}
	collect(cs.Root)
	for di, d := range defs {
		for i := range d.Deps {
			add(func(c *Case) bool {
				var cd []*ChartDef
				var col func(d *ChartDef)
				col = func(d *ChartDef) {
					cd = append(cd, d)
					for _, s := range d.Subs {
						col(s)
					}
				}
				col(c.Root)
				t := cd[di]
				name := t.Deps[i].Name
				t.Deps = append(t.Deps[:i:i], t.Deps[i+1:]...)
				used := false
				for _, o := range t.Deps {
					if o.Name == name {
						used = true
					}
				}
				if !used {
					var subs []*ChartDef
					for _, s := range t.Subs {
						if s.Name != name {
							subs = append(subs, s)
						}
					}
					t.Subs = subs
				}
				return true
			})
		}
	}
	nthDef := func(c *Case, di int) *ChartDef {
		var cd []*ChartDef
		var col func(d *ChartDef)
		col = func(d *ChartDef) {
			cd = append(cd, d)
			for _, s := range d.Subs {
				col(s)
			}
		}
		col(c.Root)
		return cd[di]
	}
	for di, d := range defs {
		for i, dep := range d.Deps {
			if dep.Alias != "" {
				add(func(c *Case) bool { nthDef(c, di).Deps[i].Alias = ""; return true })
			}
			for ti := range dep.Tags {
				add(func(c *Case) bool {
					t := &nthDef(c, di).Deps[i]
					t.Tags = append(t.Tags[:ti:ti], t.Tags[ti+1:]...)
					return true
				})
			}
			if dep.Condition != "" {
				parts := strings.Split(dep.Condition, ",")
				for pi := range parts {
					add(func(c *Case) bool {
						p := append(append([]string{}, parts[:pi]...), parts[pi+1:]...)
						nthDef(c, di).Deps[i].Condition = strings.Join(p, ",")
						return true
					})
				}
			}
		}
	}
	// drop one value leaf
	var ul [][]string
	leafPaths(nil, cs.User, &ul)
	for _, p := range ul {
		add(func(c *Case) bool { delPath(c.User, p); return true })
	}
	for di, d := range defs {
		var dl [][]string
		leafPaths(nil, d.Defaults, &dl)
		for _, p := range dl {
			add(func(c *Case) bool { delPath(nthDef(c, di).Defaults, p); return true })
		}
	}
	return out
}

// minimise greedily simplifies a failing case while it keeps failing with the
// same key, so that finding keys name only what matters.
func minimise(cs *Case, key string) *Case {
	cur := cs
	for pass := 0; pass < 4; pass++ {
		changed := false
		cands := shrinks(cur)
		for i := 0; i < len(cands); {
			ps, _, _ := judge(cands[i])
			if hasKey(ps, key) != nil {
				cur, changed = cands[i], true
				cands = shrinks(cur) // the list lost (about) one entry: keep i
				continue
			}
			i++
		}
		if !changed {
			break
		}
	}
	return cur
}
