package c11

import (
	"fmt"
	"strings"
)

// ---------- dependency trees ----------

type tree struct {
	ID string
	mk func() *ChartDef // skeleton: names and dependency entries only
	// full: quick tier runs the complete 16-pair truth tables on this tree
	full bool
	// thoroughOnly trees are outside the quick tier
	thoroughOnly bool
	// noQuickE: the truth tables of this tree run in the thorough tier only
	// (its value-tree, differential and install cases run in both)
	noQuickE bool
}

func leaf(name string) *ChartDef { return &ChartDef{Name: name} }

func trees() []tree {
	return []tree{
		{ID: "P-A", full: true, mk: func() *ChartDef {
			return &ChartDef{Name: "P", Deps: []DepDef{{Name: "A"}}, Subs: []*ChartDef{leaf("A")}}
		}},
		{ID: "P-A.B", mk: func() *ChartDef {
			return &ChartDef{Name: "P", Deps: []DepDef{{Name: "A"}, {Name: "B"}}, Subs: []*ChartDef{leaf("A"), leaf("B")}}
		}},
		{ID: "P-A-C", mk: func() *ChartDef {
			a := &ChartDef{Name: "A", Deps: []DepDef{{Name: "C"}}, Subs: []*ChartDef{leaf("C")}}
			return &ChartDef{Name: "P", Deps: []DepDef{{Name: "A"}}, Subs: []*ChartDef{a}}
		}},
		{ID: "P-a2=A", full: true, mk: func() *ChartDef {
			return &ChartDef{Name: "P", Deps: []DepDef{{Name: "A", Alias: "a2"}}, Subs: []*ChartDef{leaf("A")}}
		}},
		{ID: "P-a1=A.a2=A", mk: func() *ChartDef {
			return &ChartDef{Name: "P", Deps: []DepDef{{Name: "A", Alias: "a1"}, {Name: "A", Alias: "a2"}}, Subs: []*ChartDef{leaf("A")}}
		}},
		{ID: "P-A.B-C", mk: func() *ChartDef {
			b := &ChartDef{Name: "B", Deps: []DepDef{{Name: "C"}}, Subs: []*ChartDef{leaf("C")}}
			return &ChartDef{Name: "P", Deps: []DepDef{{Name: "A"}, {Name: "B"}}, Subs: []*ChartDef{leaf("A"), b}}
		}},
		{ID: "P-a1=A-C.a2=A-C", noQuickE: true, mk: func() *ChartDef {
			a := &ChartDef{Name: "A", Deps: []DepDef{{Name: "C"}}, Subs: []*ChartDef{leaf("C")}}
			return &ChartDef{Name: "P", Deps: []DepDef{{Name: "A", Alias: "a1"}, {Name: "A", Alias: "a2"}}, Subs: []*ChartDef{a}}
		}},
		{ID: "P-a2=A-C", thoroughOnly: true, mk: func() *ChartDef {
			a := &ChartDef{Name: "A", Deps: []DepDef{{Name: "C"}}, Subs: []*ChartDef{leaf("C")}}
			return &ChartDef{Name: "P", Deps: []DepDef{{Name: "A", Alias: "a2"}}, Subs: []*ChartDef{a}}
		}},
		{ID: "P-A-c2=C", thoroughOnly: true, mk: func() *ChartDef {
			a := &ChartDef{Name: "A", Deps: []DepDef{{Name: "C", Alias: "c2"}}, Subs: []*ChartDef{leaf("C")}}
			return &ChartDef{Name: "P", Deps: []DepDef{{Name: "A"}}, Subs: []*ChartDef{a}}
		}},
	}
}

func allDefs(d *ChartDef) []*ChartDef {
	out := []*ChartDef{d}
	for _, s := range d.Subs {
		out = append(out, allDefs(s)...)
	}
	return out
}

func allInsts(n *inst) []*inst {
	out := []*inst{n}
	for _, k := range n.kids {
		out = append(out, allInsts(k)...)
	}
	return out
}

// relPath is the key path from ancestor a down to n.
func relPath(a, n *inst) []string {
	var p []string
	for x := n; x != a && x != nil; x = x.parent {
		p = append([]string{x.name}, p...)
	}
	return p
}

// ---------- value positions ----------

// pos is one place a value can be written: a section inside the user's
// values or inside one chart's values.yaml.
type pos struct {
	Holder string   // "user" or a chart definition name
	Path   []string // section path inside the holder
	// Owner is the dotted instance path of the dependency the section is
	// destined for ("" = the holder itself at root level / decoy sections)
	Owner string
	Decoy bool // a section under the chart's real name although it goes by an alias
	// Targets: every chart instance the section is destined for (a values.yaml
	// of a chart used twice feeds both uses; decoys are plain data of the parent)
	Targets []string
}

func (p pos) String() string { return p.Holder + "/" + strings.Join(p.Path, ".") }

// positions lists every section of a tree in a fixed order.
func positions(root *ChartDef) []pos {
	r := instantiate(root, nil, nil)
	var out []pos
	seenHolder := map[string]bool{}
	var sections func(holder string, n *inst, path []string)
	sections = func(holder string, n *inst, path []string) {
		out = append(out, pos{Holder: holder, Path: path, Owner: n.dotted()})
		taken := map[string]bool{}
		for _, k := range n.kids {
			taken[k.name] = true
		}
		for _, k := range n.kids {
			sections(holder, k, append(append([]string{}, path...), k.name))
			if k.dep.Alias != "" && !taken[k.dep.Name] {
				taken[k.dep.Name] = true
				out = append(out, pos{Holder: holder, Path: append(append([]string{}, path...), k.dep.Name), Owner: n.dotted(), Decoy: true})
			}
		}
	}
	for _, n := range allInsts(r) {
		if seenHolder[n.def.Name] {
			continue
		}
		seenHolder[n.def.Name] = true
		sections(n.def.Name, n, nil)
	}
	sections("user", r, nil)
	for i := range out {
		for _, t := range targetsOf(r, out[i].Holder, out[i].Path) {
			out[i].Targets = append(out[i].Targets, t.dotted())
		}
	}
	return out
}

func holderMap(cs *Case, holder string) map[string]any {
	if holder == "user" {
		if cs.User == nil {
			cs.User = map[string]any{}
		}
		return cs.User
	}
	for _, d := range allDefs(cs.Root) {
		if d.Name == holder {
			if d.Defaults == nil {
				d.Defaults = map[string]any{}
			}
			return d.Defaults
		}
	}
	panic("holder " + holder)
}

var (
	mainLeaves  = []string{"k", "shared", "global.g", "global.t.x"}
	extraLeaves = []string{"global.t.y", "global.t.u.x", "global.t.u.y"}
	bitLeaves   = []string{"k", "global.g", "global.t.x", "global.t.u.x"}
)

// put writes leaf l at position p with a value that names where it came from.
func put(cs *Case, p pos, l string) {
	setPath(holderMap(cs, p.Holder), append(append([]string{}, p.Path...), strings.Split(l, ".")...), p.String()+":"+l)
}

// switchable gives every dependency the condition "<name>.enabled".
func switchable(d *ChartDef) {
	for _, x := range allDefs(d) {
		for i := range x.Deps {
			x.Deps[i].Condition = x.Deps[i].Eff() + ".enabled"
		}
	}
}

// userPath is where the user addresses instance n.
func userPath(n *inst) []string {
	var p []string
	for x := n; x.parent != nil; x = x.parent {
		p = append([]string{x.name}, p...)
	}
	return p
}

// ---------- truth-table alphabet ----------

type tv int // value of a switch in one source

const (
	absent tv = iota
	vTrue
	vFalse
	vStr
)

func (v tv) val() any {
	switch v {
	case vTrue:
		return true
	case vFalse:
		return false
	case vStr:
		return "str"
	}
	return nil
}

type pair struct{ def, user tv }

var (
	fullPairs = func() (ps []pair) {
		for d := absent; d <= vStr; d++ {
			for u := absent; u <= vStr; u++ {
				ps = append(ps, pair{d, u})
			}
		}
		return
	}()
	red6Pairs = []pair{{absent, absent}, {absent, vTrue}, {absent, vFalse}, {absent, vStr}, {vTrue, absent}, {vFalse, absent}}
	nonePairs = []pair{{absent, absent}}
)

// richDefaults gives every chart a full set of own defaults tagged by source.
func richDefaults(root *ChartDef) {
	for _, d := range allDefs(root) {
		d.Defaults = map[string]any{}
		for _, l := range mainLeaves {
			setPath(d.Defaults, strings.Split(l, "."), d.Name+"/:"+l)
		}
	}
}

// eSpec is one row of an enablement truth table for a focus dependency.
type eSpec struct {
	Tree     string
	Focus    string // dotted instance path
	Cond     int    // 0 none, 1 X.enabled, 2 X.enabled,global.on, 3 X.str,X.enabled, 4 X.map,X.enabled
	Tags     int    // 0, 1 {t1}, 2 {t1,t2}
	En       pair   // (default in the parent chart's values.yaml, user value) of X.enabled
	On       pair
	T1, T2   pair
	Others   []int // background of the other dependencies: 0 plain, 1 switched off by the user, 2 tagged t1
	OtherIDs []string
}

func findInst(r *inst, dotted string) *inst {
	for _, n := range allInsts(r) {
		if n.dotted() == dotted {
			return n
		}
	}
	return nil
}

func setSwitch(m map[string]any, path []string, v tv) {
	if v != absent {
		setPath(m, path, v.val())
	}
}

func buildE(t tree, s eSpec) *Case {
	cs := &Case{Root: t.mk(), User: map[string]any{}}
	richDefaults(cs.Root)
	r := instantiate(cs.Root, nil, nil)
	f := findInst(r, s.Focus)
	q := f.parent
	x := f.name
	switch s.Cond {
	case 1:
		f.dep.Condition = x + ".enabled"
	case 2:
		f.dep.Condition = x + ".enabled,global.on"
	case 3:
		f.dep.Condition = x + ".str," + x + ".enabled"
		setPath(q.def.Defaults, []string{x, "str"}, "true")
	case 4:
		f.dep.Condition = x + ".map," + x + ".enabled"
		setPath(q.def.Defaults, []string{x, "map", "enabled"}, false)
	}
	switch s.Tags {
	case 1:
		f.dep.Tags = []string{"t1"}
	case 2:
		f.dep.Tags = []string{"t1", "t2"}
	}
	setSwitch(q.def.Defaults, []string{x, "enabled"}, s.En.def)
	setSwitch(cs.User, append(userPath(f), "enabled"), s.En.user)
	setSwitch(q.def.Defaults, []string{"global", "on"}, s.On.def)
	setSwitch(cs.User, []string{"global", "on"}, s.On.user)
	setSwitch(cs.Root.Defaults, []string{"tags", "t1"}, s.T1.def)
	setSwitch(cs.User, []string{"tags", "t1"}, s.T1.user)
	setSwitch(cs.Root.Defaults, []string{"tags", "t2"}, s.T2.def)
	setSwitch(cs.User, []string{"tags", "t2"}, s.T2.user)
	for i, id := range s.OtherIDs {
		o := findInst(r, id)
		switch s.Others[i] {
		case 1:
			o.dep.Condition = o.name + ".enabled"
			setPath(cs.User, append(userPath(o), "enabled"), false)
		case 2:
			o.dep.Tags = []string{"t1"}
		}
	}
	return cs
}

// enumE walks the truth tables of one tree. fullTables selects the 16-pair
// alphabet, otherwise the 6-pair one.
func enumE(t tree, fullTables bool, emit func(eSpec)) {
	r := instantiate(t.mk(), nil, nil)
	insts := allInsts(r)[1:]
	big, small := red6Pairs, red6Pairs
	if fullTables {
		big = fullPairs
	}
	for _, f := range insts {
		var otherIDs []string
		for _, o := range insts {
			if o != f {
				otherIDs = append(otherIDs, o.dotted())
			}
		}
		nb := 1
		for range otherIDs {
			nb *= 3
		}
		for cond := 0; cond <= 4; cond++ {
			ens, ons := nonePairs, nonePairs
			switch cond {
			case 1, 2:
				ens = big
			case 3, 4:
				ens = small
			}
			if cond == 2 {
				ons = big
			}
			for tags := 0; tags <= 2; tags++ {
				t1s, t2s := nonePairs, nonePairs
				if tags >= 1 {
					t1s = big
				}
				if tags == 2 {
					t2s = big
				}
				for _, en := range ens {
					{
						for _, on := range ons {
							for _, t1 := range t1s {
								for _, t2 := range t2s {
									for b := 0; b < nb; b++ {
										others := make([]int, len(otherIDs))
										nonPlain := 0
										for i, x := 0, b; i < len(others); i, x = i+1, x/3 {
											others[i] = x % 3
											if others[i] != 0 {
												nonPlain++
											}
										}
										if fullTables && len(others) >= 2 && nonPlain > 1 {
											continue // 16-pair tables on the larger trees: at most one other dependency off/tagged
										}
										emit(eSpec{Tree: t.ID, Focus: f.dotted(), Cond: cond, Tags: tags, En: en, On: on, T1: t1, T2: t2, Others: others, OtherIDs: otherIDs})
									}
								}
							}
						}
					}
				}
			}
		}
	}
}

// ---------- value-tree cases ----------

// atom is one leaf written at one position.
type atom struct {
	P int // index into positions
	L string
}

// buildV makes a value-tree case: every dependency is switchable, `off`
// (dotted path, may be empty) is switched off by the user.
func buildV(t tree, ps []pos, atoms []atom, off string) *Case {
	cs := &Case{Root: t.mk(), User: map[string]any{}}
	switchable(cs.Root)
	for _, a := range atoms {
		put(cs, ps[a.P], a.L)
	}
	if off != "" {
		r := instantiate(cs.Root, nil, nil)
		setPath(cs.User, append(userPath(findInst(r, off)), "enabled"), false)
	}
	return cs
}

func offChoices(t tree) []string {
	out := []string{""}
	for _, n := range allInsts(instantiate(t.mk(), nil, nil))[1:] {
		out = append(out, n.dotted())
	}
	return out
}

func subsetsOf(leaves []string) [][]string {
	var out [][]string
	for m := 1; m < 1<<len(leaves); m++ {
		var s []string
		for i, l := range leaves {
			if m&(1<<i) != 0 {
				s = append(s, l)
			}
		}
		out = append(out, s)
	}
	return out
}

// ---------- R family: one chart used several times, with conditional grandchildren ----------

// repSpec is one tree of the R family: chart A depended on nAl times at the
// same level (aliases a, b, c), A itself having nGc conditional dependencies
// (X, Y, Z). gcAlias: A's first dependency itself goes by an alias (x2=X).
type repSpec struct {
	NAl, NGc int
	GcAlias  bool
}

func (r repSpec) id() string {
	s := fmt.Sprintf("P-%dxA-%dgc", r.NAl, r.NGc)
	if r.GcAlias {
		s += "-x2=X"
	}
	return s
}

func (r repSpec) mk() *ChartDef {
	a := &ChartDef{Name: "A"}
	for i, n := range []string{"X", "Y", "Z"}[:r.NGc] {
		d := DepDef{Name: n}
		if i == 0 && r.GcAlias {
			d.Alias = "x2"
		}
		d.Condition = d.Eff() + ".enabled"
		a.Deps = append(a.Deps, d)
		a.Subs = append(a.Subs, leaf(n))
	}
	p := &ChartDef{Name: "P", Subs: []*ChartDef{a}}
	for _, al := range []string{"a", "b", "c"}[:r.NAl] {
		p.Deps = append(p.Deps, DepDef{Name: "A", Alias: al, Condition: al + ".enabled"})
	}
	return p
}

// buildR: aliasOff is a bit set (alias i switched off by the user); gc holds,
// alias-major, the state of every (alias, grandchild): 0 on, 1 switched off
// in user values, 2 switched off in P's values.yaml section for that alias.
func buildR(r repSpec, aliasOff int, gc []int) *Case {
	cs := &Case{Root: r.mk(), User: map[string]any{}}
	richDefaults(cs.Root)
	root := instantiate(cs.Root, nil, nil)
	for i, al := range root.kids {
		if aliasOff&(1<<i) != 0 {
			setPath(cs.User, []string{al.name, "enabled"}, false)
		}
		for j, g := range al.kids {
			switch gc[i*r.NGc+j] {
			case 1:
				setPath(cs.User, []string{al.name, g.name, "enabled"}, false)
			case 2:
				setPath(cs.Root.Defaults, []string{al.name, g.name, "enabled"}, false)
			}
		}
	}
	return cs
}

// enumR: every assignment of the three states to every (alias, grandchild),
// with every alias on and with each single alias / (small trees) every set of
// aliases switched off.
func enumR(r repSpec, allAliasSets bool, emit func(aliasOff int, gc []int)) {
	n := r.NAl * r.NGc
	gc := make([]int, n)
	var offs []int
	for m := 0; m < 1<<r.NAl; m++ {
		bits := 0
		for x := m; x > 0; x >>= 1 {
			bits += x & 1
		}
		if allAliasSets || bits <= 1 {
			offs = append(offs, m)
		}
	}
	for {
		for _, off := range offs {
			emit(off, append([]int{}, gc...))
		}
		i := 0
		for i < n {
			gc[i]++
			if gc[i] < 3 {
				break
			}
			gc[i] = 0
			i++
		}
		if i == n {
			return
		}
	}
}

// ---------- C family: multi-element condition paths with a missing element ----------

// cSpec is one case of the C family. The condition of the focus dependency X
// is a path with several table elements; Shape says which:
//
//	0  addons.X.enabled          (shortened: X.enabled)
//	1  X.addons.feat.enabled     (shortened: X.feat.enabled)
//	2  addons.extra.X.enabled    (shortened: X.enabled)
//
// Real is the (parent values.yaml, user) pair of the boolean at the full path
// (absent/absent: the `addons` element does not exist at all, or - Elem - it
// exists as a table holding something else); Shadow is the pair at the
// shortened path, which must never be consulted. Tag: 0 no tags, 1..3 tag t1
// with user value absent/true/false.
type cSpec struct {
	Tree, Focus string
	Shape       int
	Real        pair
	Elem        bool
	Shadow      pair
	Tag         int
}

func cPaths(shape int, x string) (full, short, elem []string) {
	switch shape {
	case 0:
		return []string{"addons", x, "enabled"}, []string{x, "enabled"}, []string{"addons"}
	case 1:
		return []string{x, "addons", "feat", "enabled"}, []string{x, "feat", "enabled"}, []string{x, "addons"}
	}
	return []string{"addons", "extra", x, "enabled"}, []string{x, "enabled"}, []string{"addons", "extra"}
}

func buildC(t tree, s cSpec) *Case {
	cs := &Case{Root: t.mk(), User: map[string]any{}}
	richDefaults(cs.Root)
	r := instantiate(cs.Root, nil, nil)
	f := findInst(r, s.Focus)
	q := f.parent
	full, short, elem := cPaths(s.Shape, f.name)
	f.dep.Condition = strings.Join(full, ".")
	up := userPath(q)
	at := func(p []string) []string { return append(append([]string{}, up...), p...) }
	setSwitch(q.def.Defaults, full, s.Real.def)
	setSwitch(cs.User, at(full), s.Real.user)
	if s.Elem {
		setPath(q.def.Defaults, append(append([]string{}, elem...), "note"), "n")
	}
	setSwitch(q.def.Defaults, short, s.Shadow.def)
	setSwitch(cs.User, at(short), s.Shadow.user)
	if s.Tag > 0 {
		f.dep.Tags = []string{"t1"}
		setSwitch(cs.User, []string{"tags", "t1"}, []tv{absent, absent, vTrue, vFalse}[s.Tag])
	}
	return cs
}

func enumC(t tree, emit func(cSpec)) {
	r := instantiate(t.mk(), nil, nil)
	for _, f := range allInsts(r)[1:] {
		for shape := 0; shape < 3; shape++ {
			for _, real := range red6Pairs {
				for elem := 0; elem < 2; elem++ {
					if elem == 1 && real != (pair{absent, absent}) {
						continue // the element exists anyway
					}
					for _, sh := range fullPairs {
						for tag := 0; tag < 4; tag++ {
							emit(cSpec{Tree: t.ID, Focus: f.dotted(), Shape: shape, Real: real, Elem: elem == 1, Shadow: sh, Tag: tag})
						}
					}
				}
			}
		}
	}
}

// ---------- T family: a sibling subchart ships its own `tags` table ----------

// tSpec: P depends on A (with dependency Y) and B (with dependency X). A's
// values.yaml holds a `tags` table and, optionally, a section named after its
// sibling (`B: {X: {enabled: ...}}`): both are A's own plain data. X below B
// carries tags; only the tags the top parent / the user set may decide.
type tSpec struct {
	BFirst bool // B is listed before A in P's Chart.yaml
	XTags  int  // 1 {t1}, 2 {t1,t2}
	SibT1  tv   // tags.t1 in A's values.yaml
	SibT2  tv   // tags.t2 in A's values.yaml
	RootT1 pair // tags.t1 in P's values.yaml / user values
	XCond  bool // X has condition X.enabled
	SibSec tv   // B.X.enabled inside A's values.yaml
	UserEn tv   // user value B.X.enabled
}

func buildT(s tSpec) *Case {
	a := &ChartDef{Name: "A", Deps: []DepDef{{Name: "Y"}}, Subs: []*ChartDef{leaf("Y")}}
	x := DepDef{Name: "X", Tags: []string{"t1", "t2"}[:s.XTags]}
	if s.XCond {
		x.Condition = "X.enabled"
	}
	b := &ChartDef{Name: "B", Deps: []DepDef{x}, Subs: []*ChartDef{leaf("X")}}
	p := &ChartDef{Name: "P", Deps: []DepDef{{Name: "A"}, {Name: "B"}}, Subs: []*ChartDef{a, b}}
	if s.BFirst {
		p.Deps = []DepDef{{Name: "B"}, {Name: "A"}}
		p.Subs = []*ChartDef{b, a}
	}
	cs := &Case{Root: p, User: map[string]any{}}
	richDefaults(p)
	setSwitch(a.Defaults, []string{"tags", "t1"}, s.SibT1)
	setSwitch(a.Defaults, []string{"tags", "t2"}, s.SibT2)
	setSwitch(a.Defaults, []string{"B", "X", "enabled"}, s.SibSec)
	setSwitch(p.Defaults, []string{"tags", "t1"}, s.RootT1.def)
	setSwitch(cs.User, []string{"tags", "t1"}, s.RootT1.user)
	setSwitch(cs.User, []string{"B", "X", "enabled"}, s.UserEn)
	return cs
}

func enumT(emit func(tSpec)) {
	three := []tv{absent, vTrue, vFalse}
	for _, bFirst := range []bool{false, true} {
		for xt := 1; xt <= 2; xt++ {
			for s1 := absent; s1 <= vStr; s1++ {
				for _, s2 := range three {
					for _, rt := range red6Pairs {
						emit(tSpec{BFirst: bFirst, XTags: xt, SibT1: s1, SibT2: s2, RootT1: rt})
						for _, sec := range three {
							for _, ue := range three {
								emit(tSpec{BFirst: bFirst, XTags: xt, SibT1: s1, SibT2: s2, RootT1: rt, XCond: true, SibSec: sec, UserEn: ue})
							}
						}
					}
				}
			}
		}
	}
}
