package c08

import (
	"encoding/json"
	"fmt"
	"io"
	"sort"
	"strings"

	yaml3 "gopkg.in/yaml.v3"
)

// ---------- the specification, as literal data ----------

// installOrderSpec / uninstallOrderSpec are copies of the two kind tables: they
// are the specification ("the fixed install kind order"), compared by rank.
var installOrderSpec = []string{
	"PriorityClass", "Namespace", "NetworkPolicy", "ResourceQuota", "LimitRange", "PodSecurityPolicy", "PodDisruptionBudget",
	"ServiceAccount", "Secret", "SecretList", "ConfigMap", "StorageClass", "PersistentVolume", "PersistentVolumeClaim",
	"CustomResourceDefinition", "ClusterRole", "ClusterRoleList", "ClusterRoleBinding", "ClusterRoleBindingList", "Role", "RoleList",
	"RoleBinding", "RoleBindingList", "Service", "DaemonSet", "Pod", "ReplicationController", "ReplicaSet", "Deployment",
	"HorizontalPodAutoscaler", "StatefulSet", "Job", "CronJob", "IngressClass", "Ingress", "APIService",
	"MutatingWebhookConfiguration", "ValidatingWebhookConfiguration",
}

var uninstallOrderSpec = []string{
	"ValidatingWebhookConfiguration", "MutatingWebhookConfiguration", "APIService", "Ingress", "IngressClass", "Service", "CronJob", "Job",
	"StatefulSet", "HorizontalPodAutoscaler", "Deployment", "ReplicaSet", "ReplicationController", "Pod", "DaemonSet", "RoleBindingList",
	"RoleBinding", "RoleList", "Role", "ClusterRoleBindingList", "ClusterRoleBinding", "ClusterRoleList", "ClusterRole",
	"CustomResourceDefinition", "PersistentVolumeClaim", "PersistentVolume", "StorageClass", "ConfigMap", "SecretList", "Secret",
	"ServiceAccount", "PodDisruptionBudget", "PodSecurityPolicy", "LimitRange", "ResourceQuota", "NetworkPolicy", "Namespace", "PriorityClass",
}

// knownEventsSpec: hook event names Helm documents (test-success is the Helm 2 spelling of test).
var knownEventsSpec = map[string]string{
	"pre-install": "pre-install", "post-install": "post-install", "pre-delete": "pre-delete", "post-delete": "post-delete",
	"pre-upgrade": "pre-upgrade", "post-upgrade": "post-upgrade", "pre-rollback": "pre-rollback", "post-rollback": "post-rollback",
	"test": "test", "test-success": "test",
}

func rankIn(order []string, kind string) int {
	for i, k := range order {
		if k == kind {
			return i
		}
	}
	return len(order) // unknown kinds last
}

// ---------- independent decoding ----------

// pobj is one decoded YAML document.
type pobj struct {
	Canon  string   // canonical JSON of the whole document
	Ident  string   // apiVersion|kind|namespace|name: what a delete request addresses
	Kind   string   // .kind
	Name   string   // .metadata.name
	Dest   string   // expected destination: manifest | hook | dropped | never   (inputs only)
	Events []string // expected hook events                                     (inputs only)
	Path   string   // render path of the file it came from                     (inputs only)
}

func (o pobj) id() string { return o.Kind + "/" + o.Name }

// decodeStream reads a YAML stream with yaml.v3's Decoder; empty documents
// (nothing, or comments only) decode to nil and produce no object.
func decodeStream(text string) ([]pobj, error) {
	if len(text) < 600 { // single documents recur constantly (hook manifests, uninstall entries); the function is pure
		if r, ok := decodeMemo[text]; ok {
			return r.objs, r.err
		}
		objs, err := decodeStreamRaw(text)
		if len(decodeMemo) > 50000 {
			decodeMemo = map[string]decoded{}
		}
		decodeMemo[text] = decoded{objs, err}
		return objs, err
	}
	return decodeStreamRaw(text)
}

type decoded struct {
	objs []pobj
	err  error
}

var decodeMemo = map[string]decoded{}

func decodeStreamRaw(text string) ([]pobj, error) {
	dec := yaml3.NewDecoder(strings.NewReader(text))
	var out []pobj
	for {
		var v any
		err := dec.Decode(&v)
		if err == io.EOF {
			return out, nil
		}
		if err != nil {
			return out, err
		}
		if v == nil {
			continue
		}
		b, err := json.Marshal(v)
		if err != nil {
			return out, err
		}
		o := pobj{Canon: string(b)}
		if m, ok := v.(map[string]any); ok {
			o.Kind, _ = m["kind"].(string)
			ns := ""
			if md, ok := m["metadata"].(map[string]any); ok {
				o.Name, _ = md["name"].(string)
				ns, _ = md["namespace"].(string)
			}
			av, _ := m["apiVersion"].(string)
			o.Ident = av + "|" + o.Kind + "|" + ns + "|" + o.Name
		}
		out = append(out, o)
	}
}

// classify decides from the decoded document alone where the statement sends it.
func classify(canon string) (dest string, events []string) {
	var doc struct {
		Metadata struct {
			Annotations map[string]any `json:"annotations"`
		} `json:"metadata"`
	}
	_ = json.Unmarshal([]byte(canon), &doc)
	v, has := doc.Metadata.Annotations["helm.sh/hook"]
	if !has {
		return "manifest", nil
	}
	s, _ := v.(string)
	for _, e := range strings.Split(s, ",") {
		ev, ok := knownEventsSpec[strings.ToLower(strings.TrimSpace(e))]
		if !ok {
			return "dropped", nil // names an unknown event
		}
		events = append(events, ev)
	}
	return "hook", events
}

// renderPath is the name the engine gives a template file.
func renderPath(sub bool, name string) string {
	if sub {
		return chartName + "/charts/" + subName + "/" + name
	}
	return chartName + "/" + name
}

// expectedOf decodes every input file and tags every object with its expected
// destination. The result is in "original order": sorted file path, then
// position in the file.
func expectedOf(mainFiles, subFiles map[string]string) ([]pobj, error) {
	texts := map[string]string{}
	for n, t := range mainFiles {
		texts[renderPath(false, n)] = t
	}
	for n, t := range subFiles {
		texts[renderPath(true, n)] = t
	}
	var paths []string
	for p := range texts {
		paths = append(paths, p)
	}
	sort.Strings(paths)
	var out []pobj
	for _, p := range paths {
		objs, err := decodeStream(texts[p])
		if err != nil {
			return nil, fmt.Errorf("%s: %v", p, err)
		}
		base := p[strings.LastIndex(p, "/")+1:]
		for _, o := range objs {
			o.Path = p
			switch {
			case base == "NOTES.txt":
				o.Dest = "never:notes"
			case strings.HasPrefix(base, "_"):
				o.Dest = "never:partial"
			default:
				o.Dest, o.Events = classify(o.Canon)
			}
			out = append(out, o)
		}
	}
	return out, nil
}

// ---------- comparison ----------

type verdict struct {
	Class  string `json:"class"`
	Detail string `json:"detail"`
}

// hookView is what the oracle looks at in a release hook.
type hookView struct {
	Manifest string
	Events   []string
}

// judgeInfo reports what a case exercised (vacuity statistics).
type judgeInfo struct {
	NManifest, NHook, NDropped, NNever int
	Reordered                          bool // install order differs from original order
	UninstallWithinKindMoved           bool // uninstall keeps rank order but not the manifest order within a kind (not promised by the statement)
}

func names(os []pobj) string {
	var s []string
	for _, o := range os {
		s = append(s, o.id())
	}
	return strings.Join(s, " ")
}

// judge compares the inputs with what the release holds.
//
//	manifest  Release.Manifest
//	hooks     Release.Hooks
//	uninst    contents in the order uninstall would delete them (nil = not computed)
func judge(in []pobj, manifest string, hooks []hookView, uninst []string, uninstErr string) ([]verdict, judgeInfo) {
	var vs []verdict
	var info judgeInfo
	add := func(class, format string, a ...any) { vs = append(vs, verdict{class, fmt.Sprintf(format, a...)}) }

	actM, err := decodeStream(manifest)
	if err != nil {
		add("manifest-unparseable", "Release.Manifest is not a YAML stream: %v", err)
		return vs, info
	}
	var actH []pobj
	hookEvents := map[string][]string{}
	for i, h := range hooks {
		// A hook's manifest is stored without its final line break; every consumer (helm get hooks, helm template,
		// kube.Client.Build's line reader) reads it as a text file and supplies it. Read it the same way: otherwise
		// a document ending in a literal block scalar would count as altered although the applied object is intact.
		os, err := decodeStream(h.Manifest + "\n")
		if err != nil {
			add("hook-unparseable", "Release.Hooks[%d].Manifest is not a YAML stream: %v", i, err)
			continue
		}
		if len(os) != 1 {
			add("hook-not-one-document", "Release.Hooks[%d].Manifest holds %d objects (%s)", i, len(os), names(os))
		}
		for _, o := range os {
			actH = append(actH, o)
			hookEvents[o.Canon] = h.Events
		}
	}

	// multisets
	type cnt struct{ expM, expH, expD, expN, actM, actH int }
	counts := map[string]*cnt{}
	first := map[string]pobj{}
	get := func(o pobj) *cnt {
		if counts[o.Canon] == nil {
			counts[o.Canon] = &cnt{}
			first[o.Canon] = o
		}
		return counts[o.Canon]
	}
	inputIDs := map[string]bool{}
	for _, o := range in {
		inputIDs[o.id()] = true
		c := get(o)
		switch {
		case o.Dest == "manifest":
			c.expM++
			info.NManifest++
		case o.Dest == "hook":
			c.expH++
			info.NHook++
		case o.Dest == "dropped":
			c.expD++
			info.NDropped++
		default:
			c.expN++
			info.NNever++
		}
	}
	actIDs := map[string]bool{}
	for _, o := range actM {
		get(o).actM++
		actIDs[o.id()] = true
	}
	for _, o := range actH {
		get(o).actH++
		actIDs[o.id()] = true
	}
	var canons []string
	for c := range counts {
		canons = append(canons, c)
	}
	sort.Strings(canons)
	equal := true
	for _, cn := range canons {
		c, o := counts[cn], first[cn]
		if c.expM == c.actM && c.expH == c.actH {
			continue
		}
		equal = false
		exp, act := c.expM+c.expH, c.actM+c.actH
		where := fmt.Sprintf("manifest x%d, hooks x%d", c.actM, c.actH)
		switch {
		case exp == 0 && c.expD > 0:
			add("unknown-event-hook-kept", "%s from %s carries a hook annotation that names an unknown event or no event at all, but is in the release (%s)", o.id(), o.Path, where)
		case exp == 0 && c.expN > 0:
			add(strings.Replace(o.Dest, "never:", "", 1)+"-applied", "%s from %s must never be applied but is in the release (%s)", o.id(), o.Path, where)
		case exp == 0 && inputIDs[o.id()]:
			add("altered", "%s is in the release (%s) with content no input document has: %s", o.id(), where, cn)
		case exp == 0:
			add("spurious", "the release holds %s (%s) which no input document produces: %s", o.id(), where, cn)
		case act == 0 && actIDs[o.id()]:
			// reported from the other side as "altered"
		case act == 0:
			add("lost:"+o.Dest, "%s from %s (expected in %s) is nowhere in the release", o.id(), o.Path, o.Dest)
		case act > exp:
			add("duplicated:"+o.Dest, "%s from %s occurs %d time(s) in the input but the release has %s", o.id(), o.Path, exp, where)
		case act < exp:
			add("lost:"+o.Dest, "%s from %s occurs %d times in the input but the release has %s", o.id(), o.Path, exp, where)
		default:
			got := "hook"
			if c.actM > 0 {
				got = "manifest"
			}
			add("misplaced:"+o.Dest+"->"+got, "%s from %s belongs in %s but the release has %s", o.id(), o.Path, o.Dest, where)
		}
	}

	// hook events: a document in the hook list must be registered for exactly the events it names
	for _, o := range in {
		if o.Dest != "hook" || counts[o.Canon].actH == 0 {
			continue
		}
		want := append([]string(nil), o.Events...)
		got := append([]string(nil), hookEvents[o.Canon]...)
		sort.Strings(want)
		sort.Strings(got)
		if strings.Join(want, ",") != strings.Join(got, ",") {
			add("hook-events", "%s names events %v but is registered for %v", o.id(), want, got)
		}
	}

	if !equal {
		return vs, info // order checks only make sense on the right set
	}

	// install order: rank non-decreasing, original order within a kind
	var expM []pobj
	for _, o := range in {
		if o.Dest == "manifest" {
			expM = append(expM, o)
		}
	}
	if v, moved := orderCheck(expM, actM, installOrderSpec, func(o pobj) string { return o.Canon }); v != "" {
		add("install-order:"+v, "manifest order [%s] for documents in original order [%s]", names(actM), names(expM))
	} else if moved {
		info.Reordered = true
	}

	// uninstall order
	if uninstErr != "" {
		add("uninstall-error", "sorting the release manifest for uninstall fails: %s", uninstErr)
	} else if uninst != nil {
		var del []pobj
		for _, c := range uninst {
			os, err := decodeStream(c)
			if err != nil {
				add("uninstall-unparseable", "uninstall entry is not YAML: %v", err)
				return vs, info
			}
			del = append(del, os...)
		}
		// uninstall addresses objects by identity; the content of the entries is not applied
		dc := map[string]int{}
		for _, o := range del {
			dc[o.Ident]++
		}
		ok := true
		for _, o := range actM {
			dc[o.Ident]--
		}
		var keys []string
		for k := range dc {
			keys = append(keys, k)
		}
		sort.Strings(keys)
		for _, k := range keys {
			switch {
			case dc[k] < 0:
				ok = false
				add("uninstall:lost", "%s is in the manifest but uninstall would not delete it", k)
			case dc[k] > 0:
				ok = false
				add("uninstall:duplicated", "uninstall would delete %s %d time(s) more often than the manifest holds it", k, dc[k])
			}
		}
		if ok {
			v, _ := orderCheck(actM, del, uninstallOrderSpec, func(o pobj) string { return o.Ident })
			switch v {
			case "rank", "kind-not-contiguous":
				add("uninstall-order:"+v, "uninstall order [%s] for manifest [%s]", names(del), names(actM))
			case "within-kind":
				info.UninstallWithinKindMoved = true // the statement only promises the kind order for uninstall
			}
		}
	}
	return vs, info
}

// orderCheck: got must be a permutation of orig (already established) with
// non-decreasing rank and, per kind, the objects in orig's order.
// The resources of one kind must also be contiguous (one run per kind): the
// client only separates consecutive runs of a kind, so an order like Widget,
// Gadget, Widget cannot satisfy "all resources of one kind finish before the
// next kind starts". Which of two unknown kinds comes first is not judged.
// Returns "" | "rank" | "kind-not-contiguous" | "within-kind", and whether got differs from orig at all.
func orderCheck(orig, got []pobj, order []string, key func(pobj) string) (string, bool) {
	for i := 0; i+1 < len(got); i++ {
		if rankIn(order, got[i].Kind) > rankIn(order, got[i+1].Kind) {
			return "rank", true
		}
	}
	var kinds []string
	for _, o := range got {
		kinds = append(kinds, o.Kind)
	}
	if !contiguousRuns(kinds) {
		return "kind-not-contiguous", true
	}
	perKind := func(os []pobj) map[string][]string {
		m := map[string][]string{}
		for _, o := range os {
			m[o.Kind] = append(m[o.Kind], key(o))
		}
		return m
	}
	a, b := perKind(orig), perKind(got)
	for k, l := range a {
		if strings.Join(l, "\x00") != strings.Join(b[k], "\x00") {
			return "within-kind", true
		}
	}
	moved := false
	for i := range got {
		if i >= len(orig) || key(orig[i]) != key(got[i]) {
			moved = true
		}
	}
	return "", moved
}

// contiguousRuns reports whether every value occupies one contiguous run of the sequence.
func contiguousRuns(seq []string) bool {
	closed := map[string]bool{}
	for i, k := range seq {
		if i > 0 && seq[i-1] != k {
			closed[seq[i-1]] = true
		}
		if closed[k] {
			return false
		}
	}
	return true
}
