//go:build vsched

package c08

import (
	"encoding/json"
	"fmt"
	"strings"

	"helm.sh/helm/v4/pkg/kube"
	"helm.sh/helm/v4/pkg/vsched"

	"verif/harness/internal/core"
	"verif/harness/internal/hx"
)

func init() {
	barrierRun = runBarrier
	barrierReplay = replayBarrier
}

type barrierCase struct {
	Name      string   `json:"name"`
	Verb      string   `json:"verb"`      // create | delete
	Resources []string `json:"resources"` // "Kind/name" in list order
	Bound     int      `json:"bound"`
}

type barrierReplayData struct {
	Case    barrierCase `json:"case"`
	Choices []int       `json:"choices"`
	Key     string      `json:"key"`
}

func manifestFor(res []string) string {
	var sb strings.Builder
	for _, r := range res {
		kn := strings.SplitN(r, "/", 2)
		sb.WriteString("---\n" + hx.ResourceYAML(hx.ResSpec{Kind: kn[0], Name: kn[1], Variant: 1}))
	}
	return sb.String()
}

type srvEvent struct {
	Kind  string // accept | answer
	Label string
}

// system builds one closed system: a fresh simulated server, the real
// kube.Client and the resource list; body runs the client call.
func system(bc barrierCase) (body func(), events *[]srvEvent, errOut *error) {
	w := hx.NewWorld("memory")
	kc, _ := hx.NewKube(w.Sim, 0)
	rl, err := kc.Build(strings.NewReader(manifestFor(bc.Resources)), false)
	if err != nil {
		panic(err)
	}
	if bc.Verb == "delete" {
		// objects must exist to be deleted; created outside the exploration
		if _, err := kc.Create(rl); err != nil {
			panic(err)
		}
	}
	var evs []srvEvent
	w.Sim.Gate = func(_ int, label, class string) {
		if class != "cluster" || !vsched.Active() {
			return
		}
		vsched.Yield("arrive " + label)
		evs = append(evs, srvEvent{"accept", label})
	}
	w.Sim.Done = func(_ int, label, class string) {
		if class != "cluster" || !vsched.Active() {
			return
		}
		evs = append(evs, srvEvent{"answer", label})
		vsched.Yield("deliver " + label)
	}
	var callErr error
	body = func() {
		switch bc.Verb {
		case "create":
			_, callErr = kc.Create(rl)
		case "delete":
			_, errs := kc.Delete(rl)
			if len(errs) > 0 {
				callErr = errs[0]
			}
		}
	}
	return body, &evs, &callErr
}

func kindOfLabel(label string) string {
	// "POST configmaps/a" -> configmaps
	f := strings.Fields(label)
	if len(f) < 2 {
		return ""
	}
	return strings.SplitN(f[1], "/", 2)[0]
}

var resourceOfKind = map[string]string{"ConfigMap": "configmaps", "Secret": "secrets", "Service": "services", "ServiceAccount": "serviceaccounts", "Widget": "widgets"}

// judgeBarrier checks the barrier on one execution's server log.
func judgeBarrier(bc barrierCase, evs []srvEvent, deadlock bool, callErr error) (string, string) {
	if deadlock {
		return "deadlock", "no thread is enabled while some have not finished"
	}
	if callErr != nil {
		return "call-error", fmt.Sprintf("client call failed: %v", callErr)
	}
	// kind sequence in list order
	var order []string
	for _, r := range bc.Resources {
		k := resourceOfKind[strings.SplitN(r, "/", 2)[0]]
		if len(order) == 0 || order[len(order)-1] != k {
			order = append(order, k)
		}
	}
	rank := map[string]int{}
	for i, k := range order {
		if _, ok := rank[k]; !ok {
			rank[k] = i
		}
	}
	verb := "POST"
	if bc.Verb == "delete" {
		verb = "DELETE"
	}
	count := map[string]int{}
	maxAnswerPending := map[int]int{} // per kind rank: answers still missing
	for _, r := range bc.Resources {
		maxAnswerPending[rank[resourceOfKind[strings.SplitN(r, "/", 2)[0]]]]++
	}
	for _, e := range evs {
		if !strings.HasPrefix(e.Label, verb+" ") {
			continue
		}
		rk := rank[kindOfLabel(e.Label)]
		switch e.Kind {
		case "accept":
			count[e.Label]++
			for lower := 0; lower < rk; lower++ {
				if maxAnswerPending[lower] > 0 {
					return "barrier", fmt.Sprintf("%s was accepted while %d request(s) of the earlier kind %s were still unanswered", e.Label, maxAnswerPending[lower], order[lower])
				}
			}
		case "answer":
			maxAnswerPending[rk]--
		}
	}
	for _, r := range bc.Resources {
		kn := strings.SplitN(r, "/", 2)
		l := verb + " " + resourceOfKind[kn[0]] + "/" + kn[1]
		if count[l] != 1 {
			return "exactly-once", fmt.Sprintf("%s was sent %d times", l, count[l])
		}
	}
	return "", ""
}

func barrierCases(thorough bool) []barrierCase {
	b := 2
	if thorough {
		b = 3
	}
	cs := []barrierCase{
		{Name: "2+2+1", Verb: "create", Resources: []string{"ConfigMap/a", "ConfigMap/b", "Secret/x1", "Secret/x2", "Service/s"}, Bound: b},
		{Name: "1+2", Verb: "create", Resources: []string{"ServiceAccount/sa", "ConfigMap/a", "ConfigMap/b"}, Bound: b},
		{Name: "2+unknown", Verb: "create", Resources: []string{"ConfigMap/a", "ConfigMap/b", "Widget/w"}, Bound: b},
		{Name: "delete 1+2", Verb: "delete", Resources: []string{"Service/s", "ConfigMap/a", "ConfigMap/b"}, Bound: b},
		{Name: "2+1 deeper", Verb: "create", Resources: []string{"ConfigMap/a", "ConfigMap/b", "Secret/x1"}, Bound: b + 1},
	}
	if thorough {
		cs = append(cs, barrierCase{Name: "delete 2+2", Verb: "delete", Resources: []string{"Secret/x1", "Secret/x2", "ConfigMap/a", "ConfigMap/b"}, Bound: 2})
	}
	return cs
}

func runBarrier(c *core.Ctx) {
	maxExec := 400000
	if c.Thorough() {
		maxExec = 2000000
	}
	for _, bc := range barrierCases(c.Thorough()) {
		if !c.NextMine() {
			continue
		}
		bc := bc
		var evs *[]srvEvent
		var cerr *error
		nviol := 0
		stop := false
		st, err := vsched.Explore(func() (func(), func(*vsched.Execution)) {
			var body func()
			body, evs, cerr = system(bc)
			return body, func(ex *vsched.Execution) {
				c.Eval(1)
				c.Transition(int64(len(ex.Choices)))
				c.Distinct(bc.Name + fmt.Sprint(ex.Choices))
				c.State(bc.Name + fmt.Sprint(ex.Choices)) // one terminal state per distinct complete schedule
				inv, what := judgeBarrier(bc, *evs, ex.Deadlock, *cerr)
				if inv == "" {
					c.Outcome("barrier:ok")
					return
				}
				c.Outcome("barrier:" + inv)
				nviol++
				stop = true
				if nviol > 1 {
					return
				}
				key := core.SanitizeKey(fmt.Sprintf("barrier|%s|%s", inv, bc.Verb))
				c.Violate(prop, key, fmt.Sprintf("%s: %s [case=%s resources=%v schedule=%s]", inv, what, bc.Name, bc.Resources, strings.Join(ex.Trace, " ")),
					wrap("barrier", barrierReplayData{Case: bc, Choices: ex.Choices, Key: key}))
			}
		}, bc.Bound, maxExec, &stop)
		c.Count("barrier_executions:"+bc.Name, int64(st.Executions))
		c.Bound("barrier_preemption_bound:"+bc.Name, fmt.Sprint(bc.Bound))
		c.Depth(st.MaxPoints)
		if err != nil {
			c.NotExhaustive("barrier case %s: %v", bc.Name, err)
		} else if st.Capped {
			c.NotExhaustive("barrier case %s capped at %d executions", bc.Name, maxExec)
		}
		if st.Executions > 1 {
			c.Floor("barrier")
			c.Sample(map[string]any{"part": "barrier", "case": bc, "schedules_explored": st.Executions, "max_scheduling_points": st.MaxPoints})
		}
	}
	_ = kube.ResourcePolicyAnno
}

func replayBarrier(c *core.Ctx, data json.RawMessage) []core.Violation {
	var rd barrierReplayData
	if err := json.Unmarshal(data, &rd); err != nil {
		return nil
	}
	body, evs, cerr := system(rd.Case)
	ex, err := vsched.RunOnce(body, rd.Choices)
	if err != nil {
		fmt.Println("replay error:", err)
		return nil
	}
	inv, what := judgeBarrier(rd.Case, *evs, ex.Deadlock, *cerr)
	if inv == "" {
		return nil
	}
	key := core.SanitizeKey(fmt.Sprintf("barrier|%s|%s", inv, rd.Case.Verb))
	return core.FilterKey([]core.Violation{{Property: prop, Key: key, What: what, Replay: data}}, rd.Key)
}
