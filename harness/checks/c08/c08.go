// Package c08: every rendered document is applied exactly once, in dependency
// order. Two parts: (1) partition/ordering of rendered documents — bounded
// exhaustive enumeration of template file sets against an independent YAML
// stream decoder (partition.go); (2) the per-kind creation barrier — all
// interleavings of the concurrent creation batches of the real kube.Client,
// explored at goroutine / channel / WaitGroup granularity under the vsched
// scheduler (barrier_vsched.go, only in the instrumented build).
package c08

import (
	"encoding/json"

	"verif/harness/internal/core"
)

const prop = "C08"

// set by partition.go / barrier_vsched.go
var (
	partitionRun    func(c *core.Ctx)
	partitionReplay func(c *core.Ctx, data json.RawMessage) []core.Violation
	barrierRun      func(c *core.Ctx)
	barrierReplay   func(c *core.Ctx, data json.RawMessage) []core.Violation
)

func init() {
	core.Register(&core.Check{
		ID:    prop,
		Level: "model_checking",
		Rule: "part 1: all template file sets of 1-3 files x <=3 documents over {known kind, unknown kind, hook, unknown-event hook, two-event hook, comment-only, blank, keep-annotated} x separator spellings, " +
			"compared as multisets with an independent YAML stream decoder; part 2: every schedule (preemption-bounded in quick, unbounded in thorough) of kube.Client.Create/Delete over resources of kinds K1x2,K2x2,K3x1 " +
			"with two scheduling points per request (accepted / answered) plus every goroutine spawn, channel operation and WaitGroup wait of perform/batchPerform; " +
			"distinct = distinct file sets / distinct schedules",
		Run:    run,
		Replay: replay,
		Assumptions: []string{
			"part 2 runs in a build where pkg/kube/client.go and pkg/kube/wait.go are syntactically rewritten (sync -> vsync, go -> vsched.Go, channel ops -> vsched.Send/Recv) from the current working tree",
			"a request is accepted when the server starts handling it and answered when the response has been produced; delivery of the answer is a separate scheduling point",
		},
		RequiredFloors: []string{"partition", "barrier"},
	})
}

type envelope struct {
	Part string          `json:"part"`
	Data json.RawMessage `json:"data"`
}

func run(c *core.Ctx) {
	if partitionRun != nil {
		partitionRun(c)
	} else {
		c.NotExhaustive("partition part not built")
	}
	if barrierRun != nil {
		barrierRun(c)
	} else {
		c.NotExhaustive("barrier part needs the vsched-instrumented build (run through ./run.sh)")
	}
}

func replay(c *core.Ctx, data json.RawMessage) []core.Violation {
	var e envelope
	if err := json.Unmarshal(data, &e); err != nil {
		return nil
	}
	switch {
	case e.Part == "partition" && partitionReplay != nil:
		return partitionReplay(c, e.Data)
	case e.Part == "barrier" && barrierReplay != nil:
		return barrierReplay(c, e.Data)
	}
	return nil
}

// Wrap builds the replay payload of a part.
func wrap(part string, v any) envelope {
	b, _ := json.Marshal(v)
	return envelope{Part: part, Data: b}
}
