package c08

// Part 1 of C08: partition and ordering of rendered documents.
//
// Every member of an explicit product of template file sets is rendered by a
// dry-run, client-only action.Install; the inputs and Release.Manifest /
// Release.Hooks are decoded by yaml.v3's stream decoder (not Helm's splitter)
// and compared as multisets; the manifest order is compared by rank against
// literal copies of the two kind tables.

import (
	"encoding/json"
	"fmt"
	"runtime/debug"
	"sort"
	"strings"

	releaseutil "helm.sh/helm/v4/pkg/release/util"

	"verif/harness/internal/core"
	"verif/harness/internal/hx"
)

func init() {
	partitionRun = runPartition
	partitionReplay = replayPartition
}

type partitionReplayData struct {
	Case  pcase  `json:"case"`
	Class string `json:"class"`
	Key   string `json:"key"`
	// Files is informational: the exact template files of the case.
	Files map[string]string `json:"files,omitempty"`
}

// ---------- executing one case on the real code ----------

type evalResult struct {
	Verdicts []verdict
	Info     judgeInfo
	Outcome  string
	SelfErr  string // the oracle cannot judge this input (never expected)
}

func (r evalResult) has(class string) bool {
	for _, v := range r.Verdicts {
		if v.Class == class {
			return true
		}
	}
	return false
}

func evalCase(pc pcase) (res evalResult) {
	if pc.Real {
		return evalReal(pc)
	}
	mainFiles, subFiles := pc.build()
	in, err := expectedOf(mainFiles, subFiles)
	if err != nil {
		res.SelfErr = "independent decoder rejects the input: " + err.Error()
		res.Outcome = "oracle-cannot-judge"
		return res
	}
	// cross-check of the two independent derivations of the expectation:
	// what the generator meant each document to be vs. what the decoder sees
	if d := generatorDisagrees(pc, in); d != "" {
		res.SelfErr = "generator and decoder disagree about the input: " + d
		res.Outcome = "oracle-cannot-judge"
		return res
	}

	spec := &hx.ChartSpec{Name: chartName, Version: "0.1.0", Extra: mainFiles}
	if subFiles != nil {
		spec.Subcharts = []*hx.ChartSpec{{Name: subName, Version: "0.1.0", Extra: subFiles}}
	}
	w := hx.NewWorld("memory")
	r := w.Exec(hx.Op{Kind: "install", ClientOnly: true, DryRun: true, Chart: spec, SubNotes: pc.SubFlag}, nil)
	if strings.HasPrefix(r.Err, "PANIC") {
		res.Verdicts = []verdict{{"install-panic", r.Err}}
		res.Outcome = "panic"
		return res
	}
	if r.Failed || r.Release == nil {
		// every input is a valid YAML stream of well-formed resources: refusing it loses all documents
		res.Verdicts = []verdict{{"install-error", "dry-run install of a chart whose templates are valid YAML streams fails: " + r.Err}}
		res.Outcome = "install-error"
		return res
	}
	var hooks []hookView
	for _, h := range r.Release.Hooks {
		hv := hookView{Manifest: h.Manifest}
		for _, e := range h.Events {
			hv.Events = append(hv.Events, e.String())
		}
		hooks = append(hooks, hv)
	}
	// the order uninstall deletes in: exactly what action.Uninstall.deleteRelease computes
	var uninst []string
	uninstErr := ""
	func() {
		defer func() {
			if p := recover(); p != nil {
				uninstErr = fmt.Sprintf("PANIC: %v", p)
			}
		}()
		_, files, err := releaseutil.SortManifests(releaseutil.SplitManifests(r.Release.Manifest), nil, releaseutil.UninstallOrder)
		if err != nil {
			uninstErr = err.Error()
			return
		}
		uninst = []string{}
		for _, f := range files {
			uninst = append(uninst, f.Content)
		}
	}()
	res.Verdicts, res.Info = judge(in, r.Release.Manifest, hooks, uninst, uninstErr)
	switch {
	case len(res.Verdicts) > 0:
		res.Outcome = "violation"
	default:
		var parts []string
		add := func(b bool, s string) {
			if b {
				parts = append(parts, s)
			}
		}
		add(res.Info.NManifest > 0, "manifest")
		add(res.Info.NHook > 0, "hooks")
		add(res.Info.NDropped > 0, "dropped")
		add(res.Info.NNever > 0, "never")
		add(res.Info.Reordered, "reordered")
		if len(parts) == 0 {
			parts = []string{"nothing-applied"}
		}
		res.Outcome = "ok:" + strings.Join(parts, "+")
	}
	return res
}

// generatorDisagrees compares, per destination, how many objects the generator
// intended with how many the independent decoder found.
func generatorDisagrees(pc pcase, in []pobj) string {
	want := map[string]int{}
	for _, fs := range [][]fileSpec{pc.Files, pc.Sub} {
		for _, f := range fs {
			for _, t := range f.Docs {
				if d := docTypes[t].Dest; d != "nothing" {
					if strings.HasPrefix(f.Name[strings.LastIndex(f.Name, "/")+1:], "_") {
						d = "never:partial" // the file itself is a partial
					}
					want[d]++
				}
			}
		}
	}
	if pc.Notes {
		want["never:notes"]++
	}
	if pc.SubOn && pc.SubNotes {
		want["never:notes"]++
	}
	if pc.Helpers {
		want["never:partial"]++
	}
	want["never:notes"] += len(pc.XNotes)
	got := map[string]int{}
	for _, o := range in {
		got[o.Dest]++
	}
	for _, d := range []string{"manifest", "hook", "dropped", "never:notes", "never:partial"} {
		if want[d] != got[d] {
			return fmt.Sprintf("%s: generator %d, decoder %d", d, want[d], got[d])
		}
	}
	return ""
}

// ---------- minimisation ----------

type minimiser struct {
	memo  map[string]map[string]bool
	evals int64
}

func (m *minimiser) classes(pc pcase) map[string]bool {
	k := pc.canon()
	if cs, ok := m.memo[k]; ok {
		return cs
	}
	if len(m.memo) > 300000 {
		m.memo = map[string]map[string]bool{}
	}
	m.evals++
	r := evalCase(pc)
	cs := map[string]bool{}
	for _, v := range r.Verdicts {
		cs[v.Class] = true
	}
	m.memo[k] = cs
	return cs
}

func valid(pc pcase) bool {
	if len(pc.Files) == 0 && !pc.Notes && !pc.Helpers && !pc.SubOn && len(pc.XNotes) == 0 {
		return false
	}
	locs := map[string]bool{}
	for _, n := range pc.XNotes {
		if locs[n.Loc] || (n.Loc == "top" && pc.Notes) || (n.Loc == "sub-top" && pc.SubNotes) {
			return false // two files of one name
		}
		locs[n.Loc] = true
	}
	for _, fs := range [][]fileSpec{pc.Files, pc.Sub} {
		for _, f := range fs {
			if len(f.Docs) == 0 || len(f.Joins) != len(f.Docs)-1 {
				return false
			}
		}
	}
	if pc.SubOn && len(pc.Sub) == 0 && !pc.SubNotes && !(locs["sub-top"] || locs["sub-nested"]) {
		return false
	}
	if !pc.SubOn && (locs["sub-top"] || locs["sub-nested"]) {
		return false
	}
	return true
}

// minimise shrinks a failing case greedily while it keeps showing the class.
func (m *minimiser) minimise(pc pcase, class string) pcase {
	cur := pc.clone()
	try := func(cand pcase) bool {
		if !valid(cand) || cand.canon() == cur.canon() {
			return false
		}
		if m.classes(cand)[class] {
			cur = cand
			return true
		}
		return false
	}
	dropDoc := func(f fileSpec, i int) fileSpec {
		g := f
		g.Docs = append(append([]int(nil), f.Docs[:i]...), f.Docs[i+1:]...)
		g.Joins = nil
		if len(f.Joins) > 0 {
			j := i - 1
			if j < 0 {
				j = 0
			}
			g.Joins = append(append([]int(nil), f.Joins[:j]...), f.Joins[j+1:]...)
		}
		return g
	}
	for changed := true; changed; {
		changed = false
		// flags and extra files
		for _, edit := range []func(*pcase){
			func(p *pcase) {
				p.SubOn, p.Sub, p.SubNotes = false, nil, false
				var keep []notesSpec
				for _, n := range p.XNotes {
					if !n.sub() {
						keep = append(keep, n)
					}
				}
				p.XNotes = keep
			},
			func(p *pcase) { p.SubFlag = false },
			func(p *pcase) { p.SubNotes = false },
			func(p *pcase) { p.Sub = nil },
			func(p *pcase) { p.Notes = false },
			func(p *pcase) { p.Helpers = false },
		} {
			c := cur.clone()
			edit(&c)
			if try(c) {
				changed = true
			}
		}
		// NOTES.txt files: drop, then towards the resource-looking content
		for i := 0; i < len(cur.XNotes); i++ {
			c := cur.clone()
			c.XNotes = append(c.XNotes[:i], c.XNotes[i+1:]...)
			if try(c) {
				changed = true
				i--
			}
		}
		for i := range cur.XNotes {
			if cur.XNotes[i].Body != "resource" {
				c := cur.clone()
				c.XNotes[i].Body = "resource"
				if try(c) {
					changed = true
				}
			}
		}
		// whole files
		for i := 0; i < len(cur.Files); i++ {
			c := cur.clone()
			c.Files = append(c.Files[:i], c.Files[i+1:]...)
			if try(c) {
				changed = true
				i--
			}
		}
		// file names: towards a.yaml, b.yaml, sub/c.yaml in this order
		for i := range cur.Files {
			for _, n := range []string{"templates/a.yaml", "templates/b.yaml", "templates/sub/c.yaml"} {
				if n >= cur.Files[i].Name {
					break
				}
				used := false
				for _, f := range cur.Files {
					used = used || f.Name == n
				}
				if used {
					continue
				}
				c := cur.clone()
				c.Files[i].Name = n
				sort.Slice(c.Files, func(x, y int) bool { return c.Files[x].Name < c.Files[y].Name })
				if try(c) {
					changed = true
					break
				}
			}
		}
		// all documents of one type at once (a defect about equal kinds survives only a joint replacement)
		for _, simple := range []int{dCM, dSvc, dHook, dBlank} {
			present := map[int]bool{}
			for _, fs := range [][]fileSpec{cur.Files, cur.Sub} {
				for _, f := range fs {
					for _, t := range f.Docs {
						present[t] = true
					}
				}
			}
			for t := simple + 1; t < nDocTypes; t++ {
				if !present[t] {
					continue
				}
				c := cur.clone()
				for _, fs := range [][]fileSpec{c.Files, c.Sub} {
					for _, f := range fs {
						for i := range f.Docs {
							if f.Docs[i] == t {
								f.Docs[i] = simple
							}
						}
					}
				}
				if try(c) {
					changed = true
				}
			}
		}
		// per file: documents, options, joiners, document types
		for _, sub := range []bool{false, true} {
			files := func(p *pcase) []fileSpec {
				if sub {
					return p.Sub
				}
				return p.Files
			}
			for fi := 0; fi < len(files(&cur)); fi++ {
				for di := 0; di < len(files(&cur)[fi].Docs); di++ {
					c := cur.clone()
					files(&c)[fi] = dropDoc(files(&c)[fi], di)
					if try(c) {
						changed = true
						di--
					}
				}
				for _, edit := range []func(*fileSpec){
					func(f *fileSpec) { f.Lead = false },
					func(f *fileSpec) { f.Trail = false },
					func(f *fileSpec) { f.CRLF = false },
				} {
					c := cur.clone()
					edit(&files(&c)[fi])
					if try(c) {
						changed = true
					}
				}
				for ji := range files(&cur)[fi].Joins {
					c := cur.clone()
					files(&c)[fi].Joins[ji] = jPlain
					if try(c) {
						changed = true
					}
				}
				for di := range files(&cur)[fi].Docs {
					for _, simple := range []int{dCM, dSvc, dHook, dBlank} {
						if simple >= files(&cur)[fi].Docs[di] {
							continue // only towards simpler types: no cycles
						}
						c := cur.clone()
						files(&c)[fi].Docs[di] = simple
						if try(c) {
							changed = true
							break
						}
					}
				}
			}
		}
	}
	return cur
}

// ---------- the explorer ----------

type explorer struct {
	c     *core.Ctx
	min   *minimiser
	seen  map[string]bool // internal diversity floors
	cases int64
}

func (e *explorer) do(pc pcase) {
	if !e.c.NextMine() {
		return
	}
	e.cases++
	e.c.Eval(1)
	r := evalCase(pc)
	e.c.Outcome(r.Outcome)
	if r.SelfErr != "" {
		e.c.NotExhaustive("partition: %s: %s", pc.shape(), r.SelfErr)
		return
	}
	e.c.Distinct("partition|" + pc.canon())
	for _, f := range []struct {
		ok   bool
		name string
	}{
		{r.Info.NManifest > 0, "manifest"}, {r.Info.NHook > 0, "hook"}, {r.Info.NDropped > 0, "dropped"}, {r.Info.NNever > 0, "never"},
		{r.Info.Reordered, "reordered"}, {len(pc.Files) > 1, "multi-file"}, {pc.SubOn, "subchart"},
	} {
		if f.ok && !e.seen[f.name] {
			e.seen[f.name] = true
		}
	}
	if r.Info.UninstallWithinKindMoved {
		e.c.Count("partition_uninstall_within_kind_order_differs", 1)
	}
	if e.cases%4001 == 1 {
		mainFiles, subFiles := pc.build()
		e.c.Sample(map[string]any{"part": "partition", "shape": pc.shape(), "files": mainFiles, "subchart_files": subFiles, "outcome": r.Outcome})
	}
	if len(r.Verdicts) == 0 {
		return
	}
	report(e.c, e.min, pc, r)
}

// report minimises per violation class and raises one violation per class.
func report(c *core.Ctx, m *minimiser, pc pcase, r evalResult) {
	done := map[string]bool{}
	for _, v := range r.Verdicts {
		if done[v.Class] {
			continue
		}
		done[v.Class] = true
		small := m.minimise(pc, v.Class)
		detail := v.Detail
		if small.canon() != pc.canon() {
			for _, sv := range evalCase(small).Verdicts {
				if sv.Class == v.Class {
					detail = sv.Detail
					break
				}
			}
		}
		key := core.SanitizeKey("partition/" + v.Class + "/" + small.shape())
		mainFiles, subFiles := small.build()
		files := map[string]string{}
		for n, t := range mainFiles {
			files[renderPath(false, n)] = t
		}
		for n, t := range subFiles {
			files[renderPath(true, n)] = t
		}
		what := fmt.Sprintf("dry-run install of template files %s: %s", quoteFiles(files), detail)
		c.Violate(prop, key, what, wrap("partition", partitionReplayData{Case: small, Class: v.Class, Key: key, Files: files}))
	}
}

func quoteFiles(files map[string]string) string {
	var names []string
	for n := range files {
		names = append(names, n)
	}
	sort.Strings(names)
	var parts []string
	for _, n := range names {
		parts = append(parts, fmt.Sprintf("%s=%q", n, files[n]))
	}
	s := "{" + strings.Join(parts, ", ") + "}"
	if len(s) > 1500 {
		s = s[:1500] + "...}"
	}
	return s
}

func replayPartition(c *core.Ctx, data json.RawMessage) []core.Violation {
	var d partitionReplayData
	if err := json.Unmarshal(data, &d); err != nil {
		return nil
	}
	r := evalCase(d.Case)
	var out []core.Violation
	for _, v := range r.Verdicts {
		if v.Class != d.Class {
			continue
		}
		out = append(out, core.Violation{Property: prop, Key: d.Key, What: v.Detail, Replay: mustJSON(wrap("partition", d))})
		break
	}
	return out
}

func mustJSON(v any) json.RawMessage { b, _ := json.Marshal(v); return b }

// ---------- the space ----------

var (
	no      = []bool{false}
	yesNo   = []bool{false, true}
	allJoin = []int{jPlain, jBlankLn, jSpaces, jCRLF, jDouble}
)

func runPartition(c *core.Ctx) {
	if c.Only != "" && !strings.HasPrefix(c.Only, "partition") {
		return
	}
	only := strings.TrimPrefix(strings.TrimPrefix(c.Only, "partition"), ":")
	// the cases are tiny and allocation-heavy; a lazier collector halves the cost (restored on return)
	defer debug.SetGCPercent(debug.SetGCPercent(400))
	e := &explorer{c: c, min: &minimiser{memo: map[string]map[string]bool{}}, seen: map[string]bool{}}
	part := func(name string, fn func()) {
		if only == "" || only == name {
			before := e.cases
			fn()
			c.Count("partition_cases_"+name, e.cases-before)
		}
	}
	thorough := c.Thorough()

	full := []int{dCM, dSvc, dNS, dDep, dWidget, dHook, dHookU, dHookKU, dHookKK, dHookW, dComment, dBlank, dKeep, dCMTail, dHookTail}
	if thorough {
		full = append(full, dGadget, dHookUK, dWsBlank, dAnno, dCMKeep, dIndent) // empty-valued hook annotations: sub-part H
	}
	r8 := []int{dCM, dSvc, dNS, dWidget, dHook, dHookU, dComment, dKeep}
	r5 := []int{dCM, dSvc, dWidget, dHook, dHookU}
	crlfs := no
	if thorough {
		crlfs = yesNo
	}

	// A: one file, every document sequence of length 1..3 over the full alphabet x every separator spelling
	part("A", func() {
		eachFile("templates/a.yaml", full, 1, 3, allJoin, yesNo, yesNo, crlfs, func(f fileSpec) {
			e.do(pcase{Files: []fileSpec{f}})
		})
		c.Bound("partition.A", fmt.Sprintf("1 file x 1..3 docs over %d document types x %d joiners per gap x lead{0,1} x trail{0,1} x crlf-file%v", len(full), len(allJoin), crlfs))
	})

	// A4 (thorough): one file, 4 documents over the reduced alphabet x every separator spelling
	if thorough {
		part("A4", func() {
			r6 := []int{dCM, dSvc, dHook, dHookU, dComment, dBlank}
			eachFile("templates/a.yaml", r6, 4, 4, allJoin, yesNo, yesNo, no, func(f fileSpec) {
				e.do(pcase{Files: []fileSpec{f}})
			})
			c.Bound("partition.A4", fmt.Sprintf("1 file x 4 docs over %d document types x %d joiners per gap x lead x trail", len(r6), len(allJoin)))
		})
	}

	// B: two files, each 1..2 documents
	part("B", func() {
		alpha, joins := r8, []int{jBlankLn, jCRLF}
		if thorough {
			alpha, joins = []int{dCM, dSvc, dNS, dDep, dWidget, dGadget, dHook, dHookU, dHookKK, dComment, dBlank, dKeep}, []int{jPlain, jCRLF, jDouble}
		}
		as := fileVariants("templates/a.yaml", alpha, 1, 2, joins, no, no, no)
		for _, second := range []string{"templates/b.yaml", "templates/sub/c.yaml"} {
			bs := fileVariants(second, alpha, 1, 2, joins, no, no, no)
			if second != "templates/b.yaml" && !thorough {
				// quick: the second name only with single-document files
				as1 := fileVariants("templates/b.yaml", alpha, 1, 1, joins, no, no, no)
				bs1 := fileVariants(second, alpha, 1, 1, joins, no, no, no)
				for _, a := range as1 {
					for _, b := range bs1 {
						e.do(pcase{Files: []fileSpec{a, b}})
					}
				}
				continue
			}
			for _, a := range as {
				for _, b := range bs {
					e.do(pcase{Files: []fileSpec{a, b}})
				}
			}
		}
		c.Bound("partition.B", fmt.Sprintf("2 files (a.yaml+b.yaml; second name sub/c.yaml: %s) x 1..2 docs over %d document types x %d joiners",
			map[bool]string{true: "full product", false: "single-document files"}[thorough], len(alpha), len(joins)))
	})

	// C: three files a.yaml, b.yaml, sub/c.yaml
	part("C", func() {
		alpha, joins := r5, []int{jPlain}
		if thorough {
			alpha = r8
		}
		as := fileVariants("templates/a.yaml", alpha, 1, 2, joins, no, no, no)
		bs := fileVariants("templates/b.yaml", alpha, 1, 2, joins, no, no, no)
		cs := fileVariants("templates/sub/c.yaml", alpha, 1, 2, joins, no, no, no)
		for _, a := range as {
			for _, b := range bs {
				for _, cc := range cs {
					e.do(pcase{Files: []fileSpec{a, b, cc}})
				}
			}
		}
		c.Bound("partition.C", fmt.Sprintf("3 files x 1..2 docs over %d document types x %d joiners", len(alpha), len(joins)))
	})

	// D: NOTES.txt, _helpers.tpl, subchart templates and subchart NOTES.txt, with and without the SubNotes flag
	part("D", func() {
		maxDocs := 2
		as := fileVariants("templates/a.yaml", r8, 1, maxDocs, []int{jPlain}, no, no, no)
		subAlpha := []int{dCM, dSvc, dWidget, dHook, dHookU}
		type subOpt struct {
			on    bool
			files []fileSpec
			notes bool
		}
		subs := []subOpt{{}, {on: true, notes: true}}
		subMax := 1
		if thorough {
			subMax = 2
		}
		for _, f := range fileVariants("templates/x.yaml", subAlpha, 1, subMax, []int{jPlain}, no, no, no) {
			subs = append(subs, subOpt{on: true, files: []fileSpec{f}}, subOpt{on: true, files: []fileSpec{f}, notes: true})
		}
		for _, a := range as {
			for _, notes := range yesNo {
				for _, helpers := range yesNo {
					for _, s := range subs {
						for _, flag := range yesNo {
							if !notes && !helpers && !s.on {
								continue // covered by A
							}
							if flag && !s.on {
								continue
							}
							e.do(pcase{Files: []fileSpec{a}, Notes: notes, Helpers: helpers, SubOn: s.on, Sub: s.files, SubNotes: s.notes, SubFlag: flag})
						}
					}
				}
			}
		}
		// charts whose only templates are NOTES / partials
		for _, notes := range yesNo {
			for _, helpers := range yesNo {
				if notes || helpers {
					e.do(pcase{Notes: notes, Helpers: helpers})
				}
			}
		}
		c.Bound("partition.D", fmt.Sprintf("a.yaml (1..%d docs over %d types) x NOTES{0,1} x _helpers{0,1} x subchart{none, NOTES only, x.yaml 1..%d docs over %d types with/without NOTES} x SubNotes flag", maxDocs, len(r8), subMax, len(subAlpha)))
	})

	// E: long files, beyond the size where a sort degenerates to insertion sort (12) and where
	// uninstall's "manifest-N" keys stop sorting numerically (10)
	part("E", func() {
		lens := []int{13}
		if thorough {
			lens = []int{11, 13, 14, 16}
		}
		for _, n := range lens {
			eachSeq([]int{dCM, dSvc}, n, n, func(docs []int) {
				f := fileSpec{Name: "templates/a.yaml", Docs: append([]int(nil), docs...), Joins: make([]int, n-1)}
				e.do(pcase{Files: []fileSpec{f}})
			})
		}
		// the same length split over three files, with an unknown kind and a hook mixed in
		eachSeq([]int{dSvc, dCM, dWidget, dHook}, 7, 7, func(docs []int) {
			mk := func(name string, d []int) fileSpec {
				return fileSpec{Name: name, Docs: append([]int(nil), d...), Joins: make([]int, len(d)-1)}
			}
			fixed := []int{dSvc, dCM, dSvc, dCM, dSvc, dCM, dSvc}
			e.do(pcase{Files: []fileSpec{mk("templates/a.yaml", docs[:4]), mk("templates/b.yaml", fixed), mk("templates/sub/c.yaml", docs[4:])}})
		})
		c.Bound("partition.E", fmt.Sprintf("1 file x %v docs over {ConfigMap,Service}; 3 files x 14 docs (7 free over {Service,ConfigMap,Widget,hook})", lens))
	})

	// U: real install + uninstall on the simulated cluster (create / delete requests as the server saw them)
	// K: several kinds that are in neither kind table, interleaved within and across files: every kind must
	// come out as one contiguous run (unknown kinds after all known kinds, original order within a kind)
	part("K", func() {
		maxDocs := 5
		if thorough {
			maxDocs = 7
		}
		eachFile("templates/a.yaml", []int{dCM, dWidget, dGadget}, 1, maxDocs, []int{jPlain}, no, no, no, func(f fileSpec) {
			e.do(pcase{Files: []fileSpec{f}})
		})
		two := []int{dWidget, dGadget, dCM, dSvc}
		as := fileVariants("templates/a.yaml", two, 1, 2, []int{jPlain}, no, no, no)
		bs := fileVariants("templates/b.yaml", two, 1, 2, []int{jPlain}, no, no, no)
		for _, a := range as {
			for _, b := range bs {
				e.do(pcase{Files: []fileSpec{a, b}})
			}
		}
		wg := []int{dWidget, dGadget}
		for _, a := range fileVariants("templates/a.yaml", wg, 1, 2, []int{jPlain}, no, no, no) {
			for _, b := range fileVariants("templates/b.yaml", wg, 1, 2, []int{jPlain}, no, no, no) {
				for _, cc := range fileVariants("templates/sub/c.yaml", wg, 1, 2, []int{jPlain}, no, no, no) {
					e.do(pcase{Files: []fileSpec{a, b, cc}})
				}
			}
		}
		c.Bound("partition.K", fmt.Sprintf("two kinds outside the kind tables: 1 file x 1..%d docs over {ConfigMap,Widget,Gadget}; 2 files x 1..2 docs over {Widget,Gadget,ConfigMap,Service}; 3 files x 1..2 docs over {Widget,Gadget}", maxDocs))
	})

	// P: "partial" is decided by the file's own name only. A resource template inside a directory whose name
	// starts with an underscore (templates/_internal/cm.yaml) is rendered and must be applied; a file whose own
	// name starts with an underscore is a partial wherever it lives (templates/dir/_helpers.tpl)
	part("P", func() {
		alpha := []int{dCM, dSvc, dHook, dHookU}
		subs := [][]fileSpec{nil, {{Name: "templates/_x/y.yaml", Docs: []int{dCM}}}, {{Name: "templates/_x/y.yaml", Docs: []int{dHook}}}}
		for _, u := range fileVariants("templates/_internal/cm.yaml", alpha, 1, 2, []int{jPlain}, no, no, no) {
			for _, plain := range yesNo {
				for _, control := range yesNo {
					for _, sub := range subs {
						for _, real := range yesNo {
							if real && len(u.Docs) > 1 {
								continue
							}
							files := []fileSpec{u}
							if plain {
								files = append(files, fileSpec{Name: "templates/a.yaml", Docs: []int{dCM}})
							}
							if control {
								files = append(files, fileSpec{Name: "templates/dir/_helpers.tpl", Docs: []int{dCM}})
							}
							e.do(pcase{Files: files, SubOn: sub != nil, Sub: sub, Real: real})
						}
					}
				}
			}
		}
		// the subchart's underscore directory alone, and the control alone
		for _, real := range yesNo {
			e.do(pcase{Files: []fileSpec{{Name: "templates/a.yaml", Docs: []int{dCM}}}, SubOn: true, Sub: subs[1], Real: real})
			e.do(pcase{Files: []fileSpec{{Name: "templates/a.yaml", Docs: []int{dCM}}, {Name: "templates/dir/_helpers.tpl", Docs: []int{dCM}}}, Real: real})
		}
		c.Bound("partition.P", "templates/_internal/cm.yaml (1..2 docs over 4 types) x templates/a.yaml{0,1} x control partial templates/dir/_helpers.tpl{0,1} x subchart templates/_x/y.yaml{none,cm,hook}; dry run and (single-document files) real install+uninstall")
	})

	// H: the hook-annotation alphabet, including a hook annotation that is present but names nothing
	// (exactly empty, null, whitespace only): such a document names no known event and is dropped
	part("H", func() {
		alpha := []int{dCM, dSvc, dHook, dHookU, dHookEmpty, dHookNull, dHookCase}
		if thorough {
			alpha = append(alpha, dHookKU, dHookTilde, dHookWs)
		}
		eachFile("templates/a.yaml", alpha, 1, 3, allJoin, no, no, no, func(f fileSpec) {
			e.do(pcase{Files: []fileSpec{f}})
		})
		// the same documents spread over two files, and inside a subchart
		hs := []int{dHookEmpty, dHookNull}
		if thorough {
			hs = append(hs, dHookTilde, dHookWs)
		}
		for _, h := range hs {
			for _, o := range []int{dCM, dHook, dHookU, dHookEmpty, dHookNull} {
				one := func(name string, t int) fileSpec { return fileSpec{Name: name, Docs: []int{t}} }
				e.do(pcase{Files: []fileSpec{one("templates/a.yaml", h), one("templates/b.yaml", o)}})
				e.do(pcase{Files: []fileSpec{one("templates/a.yaml", o), one("templates/b.yaml", h)}})
				e.do(pcase{Files: []fileSpec{one("templates/a.yaml", o)}, SubOn: true, Sub: []fileSpec{one("templates/x.yaml", h)}})
			}
		}
		c.Bound("partition.H", fmt.Sprintf("hook-annotation alphabet: 1 file x 1..3 docs over %d types (hook value known / unknown / \"\" / null%s) x %d joiners; 2 files and subchart placements of the empty-valued hooks",
			len(alpha), map[bool]string{true: " / ~ / whitespace / known+unknown", false: ""}[thorough], len(allJoin)))
	})

	// N: NOTES.txt at every location (templates/, a sub-directory of templates/, and both in a subchart) with every
	// kind of content (prose, generated steps = a mapping, a resource-looking mapping, a hook-looking mapping):
	// nothing a NOTES.txt says may reach the manifest or the hook list
	part("N", func() {
		bases := []fileSpec{{Name: "templates/a.yaml", Docs: []int{dCM}}, {Name: "templates/a.yaml", Docs: []int{dHook}}}
		if thorough {
			bases = fileVariants("templates/a.yaml", r8, 1, 2, []int{jPlain}, no, no, no)
		}
		locs := []string{"top", "nested", "sub-top", "sub-nested"}
		bodies := []string{"", "prose", "steps", "resource", "hook"} // "" = no file at this location
		pick := make([]int, len(locs))
		var rec func(i int, fn func([]notesSpec))
		rec = func(i int, fn func([]notesSpec)) {
			if i == len(locs) {
				var ns []notesSpec
				for k, b := range pick {
					if bodies[b] != "" {
						ns = append(ns, notesSpec{Loc: locs[k], Body: bodies[b]})
					}
				}
				fn(ns)
				return
			}
			for b := range bodies {
				pick[i] = b
				rec(i+1, fn)
			}
		}
		rec(0, func(ns []notesSpec) {
			if len(ns) == 0 {
				return
			}
			sub := false
			for _, n := range ns {
				sub = sub || n.sub()
			}
			for _, flag := range yesNo {
				if flag && !sub {
					continue
				}
				for _, b := range bases {
					e.do(pcase{Files: []fileSpec{b}, XNotes: ns, SubOn: sub, SubFlag: flag})
				}
				e.do(pcase{XNotes: ns, SubOn: sub, SubFlag: flag}) // a chart with nothing but notes
				if sub {
					e.do(pcase{Files: []fileSpec{bases[0]}, XNotes: ns, SubOn: true, Sub: []fileSpec{{Name: "templates/x.yaml", Docs: []int{dSvc}}}, SubFlag: flag})
				}
			}
		})
		c.Bound("partition.N", fmt.Sprintf("NOTES.txt at {templates/, templates/sub/, subchart templates/, subchart templates/sub/} each {absent, prose, steps-mapping, resource, hook} x SubNotes flag x %d base files (+ none, + subchart template)", len(bases)))
	})

	part("U", func() {
		alpha := []int{dCM, dSvc, dNS, dDep, dWidget, dKeep, dHook, dHookU, dHookEmpty, dHookNull, dHookCase}
		maxDocs := 3
		if thorough {
			maxDocs = 4
		}
		eachFile("templates/a.yaml", alpha, 1, maxDocs, []int{jPlain}, no, no, no, func(f fileSpec) {
			e.do(pcase{Files: []fileSpec{f}, Real: true})
		})
		two := []int{dCM, dSvc, dDep, dWidget}
		if thorough {
			two = []int{dCM, dSvc, dNS, dDep, dWidget, dKeep, dHook, dHookU}
		}
		as := fileVariants("templates/a.yaml", two, 1, 2, []int{jPlain}, no, no, no)
		bs := fileVariants("templates/b.yaml", two, 1, 2, []int{jPlain}, no, no, no)
		for _, a := range as {
			for _, b := range bs {
				e.do(pcase{Files: []fileSpec{a, b}, Real: true})
			}
		}
		e.do(pcase{Files: []fileSpec{as[0]}, Notes: true, Helpers: true, SubOn: true, SubNotes: true, Sub: []fileSpec{{Name: "templates/x.yaml", Docs: []int{dSvc}}}, Real: true})
		// two kinds outside the kind tables, interleaved within one file and across two files
		eachFile("templates/a.yaml", []int{dWidget, dGadget, dCM}, 2, 4, []int{jPlain}, no, no, no, func(f fileSpec) {
			e.do(pcase{Files: []fileSpec{f}, Real: true})
		})
		for _, a := range fileVariants("templates/a.yaml", []int{dWidget, dGadget}, 1, 2, []int{jPlain}, no, no, no) {
			for _, b := range fileVariants("templates/b.yaml", []int{dWidget, dGadget}, 1, 2, []int{jPlain}, no, no, no) {
				e.do(pcase{Files: []fileSpec{a, b}, Real: true})
			}
		}
		// NOTES.txt at every location with every content, one at a time and all locations together
		for _, body := range []string{"prose", "steps", "resource", "hook"} {
			var all []notesSpec
			for _, loc := range []string{"top", "nested", "sub-top", "sub-nested"} {
				n := notesSpec{Loc: loc, Body: body}
				all = append(all, n)
				e.do(pcase{Files: []fileSpec{as[0]}, XNotes: []notesSpec{n}, SubOn: n.sub(), Real: true})
			}
			e.do(pcase{Files: []fileSpec{as[0]}, XNotes: all, SubOn: true, Sub: []fileSpec{{Name: "templates/x.yaml", Docs: []int{dSvc}}}, Real: true})
		}
		c.Bound("partition.U", fmt.Sprintf("real install+uninstall: 1 file x 1..%d docs over %d types; 2 files x 1..2 docs over %d types", maxDocs, len(alpha), len(two)))
	})

	c.Count("partition_cases", e.cases)
	c.Count("partition_minimise_evals", e.min.evals)
	if only != "" {
		c.NotExhaustive("partition restricted to sub-part %q", only)
		return
	}
	// vacuity guard: the part has run and this shard saw every kind of situation
	missing := []string{}
	for _, f := range []string{"manifest", "hook", "dropped", "never", "reordered", "multi-file", "subchart"} {
		if !e.seen[f] {
			missing = append(missing, f)
		}
	}
	if len(missing) == 0 {
		c.Floor("partition")
	} else {
		c.Note("partition: shard %d did not see %v", c.Shard, missing)
	}
}
