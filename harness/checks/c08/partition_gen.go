package c08

import (
	"fmt"
	"sort"
	"strings"
)

// ---------- document alphabet ----------

// docType is one member of the document alphabet. Body is a printf format with
// one %s (the resource name); bodies end in "\n" (blank ones are empty or
// whitespace only) and never contain template actions.
type docType struct {
	Tag  string // short name used in keys and samples
	Body string
	Dest string // what the generator intends: manifest | hook | dropped | nothing (cross-checked against the decoder-derived tag)
}

const (
	dCM = iota
	dSvc
	dNS
	dDep
	dWidget
	dHook
	dHookU
	dHookKU
	dHookKK
	dHookW
	dComment
	dBlank
	dKeep
	dCMTail
	dHookTail
	dHookEmpty // hook annotation present, value exactly ""
	dHookNull  // hook annotation present, value null (nothing after the colon)
	// thorough only
	dGadget
	dHookUK
	dWsBlank
	dAnno
	dCMKeep
	dIndent
	dHookCase  // known events in mixed / upper case with spaces around the comma
	dHookTilde // hook annotation present, value ~ (null)
	dHookWs    // hook annotation present, value "  " (whitespace only)
	nDocTypes
)

const hookHead = "apiVersion: v1\nkind: ConfigMap\nmetadata:\n  name: %s\n  annotations:\n"

var docTypes = [nDocTypes]docType{
	// the ConfigMap body carries content a sloppy splitter could damage: "---" inside a quoted scalar and an
	// indented "---" line inside a block scalar in the middle of the document
	dCM:      {"cm", "apiVersion: v1\nkind: ConfigMap\nmetadata:\n  name: %s\ndata:\n  q: \"a --- b\"\n  script: |\n    first\n    ---\n    last\n  z: end\n", "manifest"},
	dSvc:     {"svc", "apiVersion: v1\nkind: Service\nmetadata:\n  name: %s\nspec:\n  ports:\n  - port: 80\n    name: p\n", "manifest"},
	dNS:      {"ns", "apiVersion: v1\nkind: Namespace\nmetadata:\n  name: %s\n", "manifest"},
	dDep:     {"dep", "apiVersion: apps/v1\nkind: Deployment\nmetadata:\n  name: %s\nspec:\n  replicas: 1\n", "manifest"},
	dWidget:  {"widget", "apiVersion: example.verif/v1\nkind: Widget\nmetadata:\n  name: %s\nspec:\n  size: 1\n", "manifest"},
	dHook:    {"hook", hookHead + "    helm.sh/hook: pre-install\ndata:\n  h: \"1\"\n", "hook"},
	dHookU:   {"hookU", hookHead + "    helm.sh/hook: pre-frobnicate\ndata:\n  h: \"1\"\n", "dropped"},
	dHookKU:  {"hookKU", hookHead + "    helm.sh/hook: pre-install,pre-frobnicate\ndata:\n  h: \"1\"\n", "dropped"},
	dHookKK:  {"hookKK", hookHead + "    helm.sh/hook: pre-install, post-install\ndata:\n  h: \"1\"\n", "hook"},
	dHookW:   {"hookW", "apiVersion: batch/v1\nkind: Job\nmetadata:\n  name: %s\n  annotations:\n    helm.sh/hook: post-install\n    helm.sh/hook-weight: \"5\"\n    helm.sh/hook-delete-policy: hook-succeeded,before-hook-creation\nspec:\n  backoffLimit: 0\n", "hook"},
	dComment: {"comment", "# %s: only a comment\n", "nothing"},
	dBlank:   {"blank", "", "nothing"},
	dKeep:    {"keep", hookHead + "    helm.sh/resource-policy: keep\ndata:\n  k: v\n", "manifest"},
	// documents whose last value is a literal block scalar: its final line break belongs to the value
	dCMTail:   {"cmtail", "apiVersion: v1\nkind: ConfigMap\nmetadata:\n  name: %s\ndata:\n  run.sh: |\n    #!/bin/sh\n    echo hi\n", "manifest"},
	dHookTail: {"hooktail", hookHead + "    helm.sh/hook: pre-install\ndata:\n  run.sh: |\n    #!/bin/sh\n    echo hi\n", "hook"},
	// a hook annotation that is present but names nothing: it names no known event, so the document is dropped
	dHookEmpty: {"hookEmpty", hookHead + "    helm.sh/hook: \"\"\ndata:\n  h: \"1\"\n", "dropped"},
	dHookNull:  {"hookNull", hookHead + "    helm.sh/hook:\n    example.verif/owner: team\ndata:\n  h: \"1\"\n", "dropped"},
	dHookCase:  {"hookCase", hookHead + "    helm.sh/hook: \"Pre-Install , POST-UPGRADE\"\ndata:\n  h: \"1\"\n", "hook"},
	dHookTilde: {"hookTilde", hookHead + "    helm.sh/hook: ~\ndata:\n  h: \"1\"\n", "dropped"},
	dHookWs:    {"hookWs", hookHead + "    helm.sh/hook: \"  \"\ndata:\n  h: \"1\"\n", "dropped"},
	dGadget:    {"gadget", "apiVersion: example.verif/v1\nkind: Gadget\nmetadata:\n  name: %s\n", "manifest"},
	dHookUK:    {"hookUK", hookHead + "    helm.sh/hook: pre-frobnicate,post-install\ndata:\n  h: \"1\"\n", "dropped"},
	dWsBlank:   {"wsblank", "  \n", "nothing"},
	dCMKeep:    {"cmkeep", "apiVersion: v1\nkind: ConfigMap\nmetadata:\n  name: %s\ndata:\n  text: |+\n    line\n\n\n", "manifest"},
	dIndent:    {"indented", "  apiVersion: v1\n  kind: ConfigMap\n  metadata:\n    name: %s\n  data:\n    k: v\n", "manifest"},
	dAnno:      {"anno", "apiVersion: v1\nkind: Service\nmetadata:\n  name: %s\n  annotations:\n    example.verif/owner: team\nspec:\n  ports:\n  - port: 81\n", "manifest"},
}

func docBody(t int, name string) string {
	b := docTypes[t].Body
	if strings.Contains(b, "%s") {
		return fmt.Sprintf(b, name)
	}
	return b
}

// ---------- separators ----------

const (
	jPlain   = iota // "---\n" directly after the previous document's final newline
	jBlankLn        // "\n---\n": an extra empty line before the separator
	jSpaces         // "---  \n": trailing spaces after the dashes
	jCRLF           // "\r\n---\r\n": the previous document's final "\n" is replaced
	jDouble         // "---\n---\n": doubled separator
	nJoiners
)

var joinerTag = [nJoiners]string{"sep", "nlsep", "sepsp", "crlf", "dbl"}

// ---------- case ----------

// fileSpec is one template file: Docs[i] joined by Joins[i-1].
type fileSpec struct {
	Name  string `json:"name"` // chart-relative, e.g. templates/a.yaml
	Docs  []int  `json:"docs"`
	Joins []int  `json:"joins,omitempty"` // len(Docs)-1 entries
	Lead  bool   `json:"lead,omitempty"`  // separator before the first document
	Trail bool   `json:"trail,omitempty"` // separator after the last document
	CRLF  bool   `json:"crlf,omitempty"`  // the whole file uses CRLF line ends
}

// pcase is one generated chart; it is what replays store.
type pcase struct {
	Files    []fileSpec  `json:"files"`
	Notes    bool        `json:"notes,omitempty"`     // templates/NOTES.txt (content looks like a resource)
	Helpers  bool        `json:"helpers,omitempty"`   // templates/_helpers.tpl rendering a resource-looking document
	Sub      []fileSpec  `json:"sub,omitempty"`       // subchart "sub1" template files
	SubOn    bool        `json:"sub_on,omitempty"`    // subchart present (possibly with NOTES only)
	SubNotes bool        `json:"sub_notes,omitempty"` // subchart has templates/NOTES.txt
	SubFlag  bool        `json:"sub_flag,omitempty"`  // action flag SubNotes (--render-subchart-notes)
	XNotes   []notesSpec `json:"xnotes,omitempty"`    // further NOTES.txt files: any location, any content
	Real     bool        `json:"real,omitempty"`      // sub-part U: real install + uninstall on the simulated cluster instead of a dry run
}

// notesSpec is one NOTES.txt file.
type notesSpec struct {
	Loc  string `json:"loc"`  // top | nested | sub-top | sub-nested
	Body string `json:"body"` // prose | steps | resource | hook
}

// notesLocs: where a NOTES.txt can live (chart-relative path; sub-* are in the subchart).
var notesLocs = map[string]string{
	"top": "templates/NOTES.txt", "nested": "templates/sub/NOTES.txt",
	"sub-top": "templates/NOTES.txt", "sub-nested": "templates/sub/NOTES.txt",
}

// notesBodies: what a NOTES.txt can say; %s is a unique name. All are valid YAML streams of one document:
// prose is a plain multi-line scalar, steps is the usual generated text (a mapping that is no resource),
// resource looks like a resource, hook like a hook.
var notesBodies = map[string]string{
	"prose":    "Thank you for installing %s.\nYour release is ready.\n",
	"steps":    "1. Get the application URL of %s by running these commands:\n  kubectl get svc\n",
	"resource": notesBody,
	"hook":     hookHead + "    helm.sh/hook: pre-install\ndata:\n  from: notes\n",
}

func (n notesSpec) sub() bool { return strings.HasPrefix(n.Loc, "sub-") }

const (
	chartName = "ch"
	subName   = "sub1"
	notesBody = "apiVersion: v1\nkind: ConfigMap\nmetadata:\n  name: %s\ndata:\n  from: notes\n"
	partBody  = "apiVersion: v1\nkind: ConfigMap\nmetadata:\n  name: from-partial\ndata:\n  from: partial\n"
)

// letter used in generated resource names: one per file.
func fileLetter(name string, sub bool) string {
	base := name[strings.LastIndex(name, "/")+1:]
	l := base[:1]
	if sub {
		return "s" + l
	}
	return l
}

// content assembles the text of one file.
func (f fileSpec) content(sub bool) string {
	var sb strings.Builder
	if f.Lead {
		sb.WriteString("---\n")
	}
	for i, t := range f.Docs {
		if i > 0 {
			switch f.Joins[i-1] {
			case jPlain:
				sb.WriteString("---\n")
			case jBlankLn:
				sb.WriteString("\n---\n")
			case jSpaces:
				sb.WriteString("---  \n")
			case jCRLF:
				s := sb.String()
				if strings.HasSuffix(s, "\n") && !strings.HasSuffix(s, "\r\n") {
					sb.Reset()
					sb.WriteString(s[:len(s)-1])
				}
				sb.WriteString("\r\n---\r\n")
			case jDouble:
				sb.WriteString("---\n---\n")
			}
		}
		sb.WriteString(docBody(t, fmt.Sprintf("%s%d", fileLetter(f.Name, sub), i)))
	}
	if f.Trail {
		sb.WriteString("---\n")
	}
	s := sb.String()
	if f.CRLF {
		s = strings.ReplaceAll(strings.ReplaceAll(s, "\r\n", "\n"), "\n", "\r\n")
	}
	return s
}

// build returns the raw template files of the main chart and of the subchart (nil when absent).
func (p pcase) build() (main map[string]string, sub map[string]string) {
	main = map[string]string{}
	for _, f := range p.Files {
		main[f.Name] = f.content(false)
	}
	if p.Notes {
		main["templates/NOTES.txt"] = fmt.Sprintf(notesBody, "from-notes")
	}
	if p.Helpers {
		main["templates/_helpers.tpl"] = partBody
	}
	if p.SubOn {
		sub = map[string]string{}
		for _, f := range p.Sub {
			sub[f.Name] = f.content(true)
		}
		if p.SubNotes {
			sub["templates/NOTES.txt"] = fmt.Sprintf(notesBody, "from-subnotes")
		}
	}
	for _, n := range p.XNotes {
		text := fmt.Sprintf(notesBodies[n.Body], "notes-"+n.Loc)
		if n.sub() {
			if sub == nil {
				sub = map[string]string{}
			}
			sub[notesLocs[n.Loc]] = text
		} else {
			main[notesLocs[n.Loc]] = text
		}
	}
	return main, sub
}

func (f fileSpec) shape() string {
	var parts []string
	if len(f.Docs) > 6 {
		seen := map[string]bool{}
		var kinds []string
		for _, t := range f.Docs {
			if !seen[docTypes[t].Tag] {
				seen[docTypes[t].Tag] = true
				kinds = append(kinds, docTypes[t].Tag)
			}
		}
		sort.Strings(kinds)
		parts = append(parts, fmt.Sprintf("%ddocs{%s}", len(f.Docs), strings.Join(kinds, ",")))
	} else {
		for i, t := range f.Docs {
			if i > 0 {
				parts = append(parts, joinerTag[f.Joins[i-1]])
			}
			parts = append(parts, docTypes[t].Tag)
		}
	}
	s := strings.TrimPrefix(f.Name, "templates/") + "[" + strings.Join(parts, "~") + "]"
	if f.Lead {
		s = "lead+" + s
	}
	if f.Trail {
		s += "+trail"
	}
	if f.CRLF {
		s += "+CRLF"
	}
	return s
}

// shape is the compact canonical description used in finding keys.
func (p pcase) shape() string {
	var parts []string
	for _, f := range p.Files {
		parts = append(parts, f.shape())
	}
	if p.Notes {
		parts = append(parts, "NOTES")
	}
	if p.Helpers {
		parts = append(parts, "_helpers")
	}
	if p.SubOn {
		var sp []string
		for _, f := range p.Sub {
			sp = append(sp, f.shape())
		}
		if p.SubNotes {
			sp = append(sp, "NOTES")
		}
		parts = append(parts, "sub("+strings.Join(sp, ",")+")")
	}
	for _, n := range p.XNotes {
		parts = append(parts, "NOTES@"+n.Loc+"("+n.Body+")")
	}
	if p.SubFlag {
		parts = append(parts, "subnotes-flag")
	}
	if p.Real {
		parts = append(parts, "real")
	}
	return strings.Join(parts, ",")
}

// canon is the full identity of a case (shape, but never abbreviated).
func (p pcase) canon() string {
	var sb strings.Builder
	wr := func(fs []fileSpec) {
		for _, f := range fs {
			fmt.Fprintf(&sb, "%s%v%v%v%v%v;", f.Name, f.Docs, f.Joins, f.Lead, f.Trail, f.CRLF)
		}
	}
	wr(p.Files)
	fmt.Fprintf(&sb, "|%v%v%v%v%v%v|", p.Notes, p.Helpers, p.SubOn, p.SubNotes, p.SubFlag, p.Real)
	wr(p.Sub)
	fmt.Fprintf(&sb, "|%v", p.XNotes)
	return sb.String()
}

func (p pcase) clone() pcase {
	q := p
	cp := func(fs []fileSpec) []fileSpec {
		if fs == nil {
			return nil
		}
		out := make([]fileSpec, len(fs))
		for i, f := range fs {
			out[i] = f
			out[i].Docs = append([]int(nil), f.Docs...)
			out[i].Joins = append([]int(nil), f.Joins...)
		}
		return out
	}
	q.Files = cp(p.Files)
	q.Sub = cp(p.Sub)
	q.XNotes = append([]notesSpec(nil), p.XNotes...)
	return q
}

// ---------- enumeration helpers ----------

// eachSeq calls fn with every sequence over alpha of length lo..hi (shortest first).
func eachSeq(alpha []int, lo, hi int, fn func([]int)) {
	for n := lo; n <= hi; n++ {
		seq := make([]int, n)
		var rec func(i int)
		rec = func(i int) {
			if i == n {
				fn(seq)
				return
			}
			for _, a := range alpha {
				seq[i] = a
				rec(i + 1)
			}
		}
		rec(0)
	}
}

// eachFile calls fn with every file over the document alphabet with minDocs..maxDocs documents and every joiner
// assignment; lead/trail/crlf options are multiplied in when the corresponding lists have more than one entry.
func eachFile(name string, alpha []int, minDocs, maxDocs int, joiners []int, leads, trails, crlfs []bool, fn func(fileSpec)) {
	eachSeq(alpha, minDocs, maxDocs, func(docs []int) {
		eachSeq(joiners, len(docs)-1, len(docs)-1, func(js []int) {
			for _, l := range leads {
				for _, t := range trails {
					for _, c := range crlfs {
						fn(fileSpec{Name: name, Docs: append([]int(nil), docs...), Joins: append([]int(nil), js...), Lead: l, Trail: t, CRLF: c})
					}
				}
			}
		})
	})
}

// fileVariants collects eachFile into a list.
func fileVariants(name string, alpha []int, minDocs, maxDocs int, joiners []int, leads, trails, crlfs []bool) []fileSpec {
	var out []fileSpec
	eachFile(name, alpha, minDocs, maxDocs, joiners, leads, trails, crlfs, func(f fileSpec) { out = append(out, f) })
	return out
}
