package c08

import (
	"fmt"
	"sort"
	"strings"

	"verif/harness/internal/hx"
)

// Sub-part U: the same charts through a real (not dry-run) action.Install and
// action.Uninstall against the simulated API server. This covers the call
// sites the dry run does not reach: install creates what the manifest holds,
// once, in install kind order; uninstall deletes it once, in uninstall kind
// order. Only the order *between* kinds is judged here: requests of one kind
// are concurrent (their interleavings are part 2).

// pluralSpec maps the kinds of the alphabet to REST resources (oracle data).
var pluralSpec = map[string]string{
	"configmaps": "ConfigMap", "services": "Service", "namespaces": "Namespace", "deployments": "Deployment",
	"widgets": "Widget", "gadgets": "Gadget", "jobs": "Job",
}

type reqSeen struct {
	Verb, Kind, Name string
}

// appliedRequests extracts the state-changing POST/DELETE requests from a request log.
func appliedRequests(r hx.Result, verb string) []reqSeen {
	var out []reqSeen
	for _, e := range r.Log {
		if e.Class != "cluster" || e.Verb != verb || !e.Applied {
			continue
		}
		f := strings.Fields(e.Label) // "POST configmaps/a0"
		if len(f) != 2 {
			continue
		}
		rn := strings.SplitN(f[1], "/", 2)
		if len(rn) != 2 {
			continue
		}
		kind, ok := pluralSpec[rn[0]]
		if !ok {
			kind = "?" + rn[0]
		}
		out = append(out, reqSeen{verb, kind, rn[1]})
	}
	return out
}

func reqNames(rs []reqSeen) string {
	var s []string
	for _, r := range rs {
		s = append(s, r.Kind+"/"+r.Name)
	}
	return strings.Join(s, " ")
}

func evalReal(pc pcase) (res evalResult) {
	mainFiles, subFiles := pc.build()
	in, err := expectedOf(mainFiles, subFiles)
	if err == nil {
		if d := generatorDisagrees(pc, in); d != "" {
			err = fmt.Errorf("generator and decoder disagree: %s", d)
		}
	}
	if err != nil {
		res.SelfErr, res.Outcome = err.Error(), "oracle-cannot-judge"
		return res
	}
	add := func(class, format string, a ...any) {
		res.Verdicts = append(res.Verdicts, verdict{class, fmt.Sprintf(format, a...)})
	}
	spec := &hx.ChartSpec{Name: chartName, Version: "0.1.0", Extra: mainFiles}
	if subFiles != nil {
		spec.Subcharts = []*hx.ChartSpec{{Name: subName, Version: "0.1.0", Extra: subFiles}}
	}
	w := hx.NewWorld("memory")
	ri := w.Exec(hx.Op{Kind: "install", Chart: spec}, nil)
	if ri.Failed {
		add("real-install-error", "install of a chart whose templates are valid YAML streams of distinct resources fails: %s", ri.Err)
		res.Outcome = "real:install-error"
		return res
	}

	want := map[string]string{} // Kind/name -> destination
	for _, o := range in {
		want[o.id()] = o.Dest
		switch o.Dest {
		case "manifest":
			res.Info.NManifest++
		case "hook":
			res.Info.NHook++
		case "dropped":
			res.Info.NDropped++
		default:
			res.Info.NNever++
		}
	}
	ids := func() []string {
		var s []string
		for id := range want {
			s = append(s, id)
		}
		sort.Strings(s)
		return s
	}()

	// creation
	posts := appliedRequests(ri, "POST")
	created := map[string]int{}
	var mainPosts []reqSeen
	for _, p := range posts {
		id := p.Kind + "/" + p.Name
		created[id]++
		if want[id] == "manifest" {
			mainPosts = append(mainPosts, p)
		}
		if _, known := want[id]; !known {
			add("real-create:spurious", "install created %s which no input document describes", id)
		}
	}
	for _, id := range ids {
		switch d := want[id]; {
		case (d == "manifest" || d == "hook") && created[id] == 0:
			add("real-create:missing:"+d, "%s (%s) was never created by install; requests: [%s]", id, d, reqNames(posts))
		case (d == "manifest" || d == "hook") && created[id] > 1:
			add("real-create:duplicated:"+d, "%s (%s) was created %d times by install", id, d, created[id])
		case (d == "dropped" || strings.HasPrefix(d, "never")) && created[id] > 0:
			add("real-create:"+d, "%s must not be applied (%s) but install created it", id, d)
		}
	}
	for i := 0; i+1 < len(mainPosts); i++ {
		if rankIn(installOrderSpec, mainPosts[i].Kind) > rankIn(installOrderSpec, mainPosts[i+1].Kind) {
			add("real-create-order:rank", "install created resources in the order [%s]", reqNames(mainPosts))
			break
		}
	}
	kindsOf := func(rs []reqSeen) []string {
		var ks []string
		for _, r := range rs {
			ks = append(ks, r.Kind)
		}
		return ks
	}
	if !contiguousRuns(kindsOf(mainPosts)) {
		add("real-create-order:kind-not-contiguous", "install created resources in the order [%s]: a kind is resumed after another kind was started", reqNames(mainPosts))
	}
	severalKinds := false
	for _, p := range mainPosts {
		if p.Kind != mainPosts[0].Kind {
			severalKinds = true
		}
	}

	// deletion
	ru := w.Exec(hx.Op{Kind: "uninstall"}, nil)
	if ru.Failed {
		add("real-uninstall-error", "uninstall of the release just installed fails: %s", ru.Err)
		res.Outcome = "real:uninstall-error"
		return res
	}
	dels := appliedRequests(ru, "DELETE")
	deleted := map[string]int{}
	for _, d := range dels {
		deleted[d.Kind+"/"+d.Name]++
	}
	kept := map[string]bool{}
	for _, o := range in {
		if strings.Contains(o.Canon, `"helm.sh/resource-policy":"keep"`) {
			kept[o.id()] = true
		}
	}
	for _, id := range ids {
		if want[id] != "manifest" || kept[id] {
			continue // hooks and kept resources are not this property's business on uninstall
		}
		switch {
		case deleted[id] == 0:
			add("real-delete:missing", "%s is in the manifest but uninstall did not delete it; requests: [%s]", id, reqNames(dels))
		case deleted[id] > 1:
			add("real-delete:duplicated", "%s was deleted %d times by uninstall", id, deleted[id])
		}
	}
	for i := 0; i+1 < len(dels); i++ {
		if rankIn(uninstallOrderSpec, dels[i].Kind) > rankIn(uninstallOrderSpec, dels[i+1].Kind) {
			add("real-delete-order:rank", "uninstall deleted resources in the order [%s]", reqNames(dels))
			break
		}
	}
	if !contiguousRuns(kindsOf(dels)) {
		add("real-delete-order:kind-not-contiguous", "uninstall deleted resources in the order [%s]: a kind is resumed after another kind was started", reqNames(dels))
	}
	switch {
	case len(res.Verdicts) > 0:
		res.Outcome = "violation"
	case len(mainPosts) == 0:
		res.Outcome = "real:ok:nothing-in-manifest"
	case severalKinds:
		res.Outcome = "real:ok:several-kinds"
	default:
		res.Outcome = "real:ok:one-kind"
	}
	return res
}
