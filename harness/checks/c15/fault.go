package c15

import (
	"fmt"
	"os"
	"path/filepath"
	"strings"

	"helm.sh/helm/v4/pkg/action"
	chart "helm.sh/helm/v4/pkg/chart/v2"
	"helm.sh/helm/v4/pkg/chart/v2/loader"
	chartutil "helm.sh/helm/v4/pkg/chart/v2/util"

	"verif/harness/internal/core"
)

// ---------- a save that fails after the archive file was created ----------
//
// Root name and version are checked before Save creates the file. Two things
// are only found while the archive is being written: an invalid chart name
// further down the dependency tree (only the tar writer validates nested
// names) and a values.schema.json that is not JSON (the loader accepts it, Save
// refuses it). In both cases the chart is not packaged: the call returns an
// error and the destination holds no file.

// fault is one way to make the write phase fail.
type fault struct {
	Kind  string // nested-name | schema
	Depth int    // 0 = the root chart (schema only), 1 = a dependency, 2 = a dependency of a dependency
	Bad   string // the invalid name, or the schema content
}

func (f fault) shape() string {
	if f.Kind == "schema" {
		return fmt.Sprintf("schema-not-json/depth=%d", f.Depth)
	}
	return fmt.Sprintf("nested-invalid-name/depth=%d", f.Depth)
}

func faults() []fault {
	var fs []fault
	for _, depth := range []int{1, 2} {
		// plainly invalid names, and names that only become invalid once their
		// non-printable characters are dropped (see collapsingNames)
		for _, n := range append([]string{"../x", "a/b", "", "../../escape"}, collapsingNames...) {
			fs = append(fs, fault{"nested-name", depth, n})
		}
	}
	for _, depth := range []int{0, 1, 2} {
		for _, s := range []string{"{not json", ""} {
			fs = append(fs, fault{"schema", depth, s})
		}
	}
	return fs
}

// faultFiles adds the chain fmid (depth 1) -> fbad (depth 2) as chart
// directories; the faulty chart is the one at f.Depth. badName is written into
// the faulty chart's Chart.yaml (on-disk form of a nested invalid name).
func faultFiles(f fault) []file {
	var out []file
	mid := subchart("fmid", "0.1.0")
	bad := subchart("fbad", "0.1.0")
	target := &bad
	if f.Depth == 1 {
		target = &mid
	}
	switch f.Kind {
	case "schema":
		if f.Depth == 0 {
			out = append(out, file{"values.schema.json", []byte(f.Bad)})
		} else {
			*target = append(*target, file{"values.schema.json", []byte(f.Bad)})
		}
	case "nested-name":
		(*target)[0] = file{"Chart.yaml", []byte(fmt.Sprintf("apiVersion: v2\nname: %s\nversion: 0.1.0\n", yamlStr(f.Bad)))}
	}
	out = append(out, withPrefix("charts/fmid/", mid)...)
	if f.Depth == 2 {
		out = append(out, withPrefix("charts/fmid/charts/fbad/", bad)...)
	}
	return out
}

// evalFault runs one (deviation set, fault, entry point) case.
func evalFault(rd replayData) (fs []found, outcome string) {
	b, ok := buildCase(rd.Devs)
	if !ok || rd.Fault == nil {
		return nil, "not-a-case"
	}
	f := *rd.Fault
	dir := scratch()
	defer os.RemoveAll(dir)
	out := filepath.Join(dir, "out", "inner", "dest")
	if err := os.MkdirAll(out, 0o755); err != nil {
		panic(err)
	}
	set := b.fileSet()
	var err error
	var path string
	var c0 *chart.Chart
	switch rd.Entry {
	case "save":
		if f.Kind == "nested-name" {
			// the loader refuses such a tree, so it is put together in memory:
			// valid charts from the loader, the badly named one attached by hand
			var e error
			if c0, e = loader.LoadFiles(buffered(set)); e != nil {
				return nil, "input-rejected"
			}
			bad := &chart.Chart{Metadata: &chart.Metadata{APIVersion: "v2", Name: f.Bad, Version: "0.1.0"},
				Templates: []*chart.File{{Name: "templates/t.yaml", Data: []byte("kind: X\n")}}}
			parent := c0
			if f.Depth == 2 {
				mid, e := loader.LoadFiles(buffered(subchart("fmid", "0.1.0")))
				if e != nil {
					panic(e)
				}
				c0.AddDependency(mid)
				parent = mid
			}
			parent.AddDependency(bad)
		} else {
			var e error
			if c0, e = loader.LoadFiles(buffered(append(set, faultFiles(f)...))); e != nil {
				return nil, "input-rejected"
			}
		}
		err = guard(func() (e error) { path, e = chartutil.Save(c0, out); return })
	case "package":
		src := filepath.Join(dir, "srcdir")
		if e := writeTree(src, append(set, faultFiles(f)...)); e != nil {
			panic(e)
		}
		pkg := action.NewPackage()
		pkg.Destination = out
		err = guard(func() (e error) { path, e = pkg.Run(src, nil); return })
	}
	var left []string
	for _, p := range regularFiles(filepath.Join(dir, "out")) {
		left = append(left, strings.TrimPrefix(p, dir+"/"))
	}
	desc := fmt.Sprintf("%s of baseline + {%s} with %s", rd.Entry, strings.Join(rd.Devs, ", "), describeFault(f))
	switch {
	case err != nil && len(left) == 0:
		return nil, "fault:refused-clean:" + rd.Entry
	case err != nil:
		what := fmt.Sprintf("%s fails (%v) but leaves %v behind", desc, err, left)
		if c, lerr := loader.LoadFile(filepath.Join(dir, left[0])); lerr == nil {
			what += fmt.Sprintf("; the leftover loads as chart %q with %d of the dependencies and no error", c.Name(), len(c.Dependencies()))
		}
		what = strings.ReplaceAll(what, dir, "<tmp>")
		return []found{{Key: core.SanitizeKey("failed-save-leaves-archive/" + rd.Entry + "/" + f.shape()), What: what, Replay: rd}}, "violation"
	case f.Kind == "nested-name":
		// the statement names it: a chart with an invalid name is not packaged
		return []found{{Key: core.SanitizeKey("invalid-packaged/" + rd.Entry + "/" + f.shape()),
			What: fmt.Sprintf("%s succeeds (returned %q; files written: %v)", desc, strings.TrimPrefix(path, dir+"/"), left), Replay: rd}}, "violation"
	default:
		// a schema that is not JSON was accepted: then the archive must at least hold the chart
		c1, lerr := loader.LoadFile(path)
		if lerr != nil {
			return []found{{Key: core.SanitizeKey("save-loadfile/reload-fails/" + rd.Entry + "/" + f.shape()),
				What: fmt.Sprintf("%s succeeds but the archive cannot be loaded: %v", desc, lerr), Replay: rd}}, "violation"
		}
		if c0 == nil {
			c0, _ = loader.LoadDir(filepath.Join(dir, "srcdir"))
		}
		var ds []diff
		if c0 != nil {
			compareCharts("", c0, c1, &ds)
		}
		if len(ds) > 0 {
			return []found{{Key: core.SanitizeKey("save-loadfile/differs/" + rd.Entry + "/" + f.shape()),
				What: fmt.Sprintf("%s succeeds but the archive differs: %s", desc, ds[0]), Replay: rd}}, "violation"
		}
		return nil, "fault:accepted-and-preserved:" + rd.Entry
	}
}

func describeFault(f fault) string {
	where := []string{"the root chart", "a dependency", "a dependency of a dependency"}[f.Depth]
	if f.Kind == "schema" {
		return fmt.Sprintf("values.schema.json = %q (not JSON) in %s", f.Bad, where)
	}
	return fmt.Sprintf("%s named %+q", where, f.Bad)
}

// runFaults enumerates deviation sets (<= 1, as in the invalid section) x faults x entry points.
func runFaults(c *core.Ctx) {
	var devsets [][]string
	devsets = append(devsets, nil)
	for _, d := range devTable {
		if strings.HasPrefix(d.ID, "ign:") && d.ID != "ign:star-txt" {
			continue
		}
		devsets = append(devsets, []string{d.ID})
	}
	c.Bound("write_phase_faults", fmt.Sprint(len(faults())))
	sampled := 0
	for _, ds := range devsets {
		b, ok := buildCase(ds)
		if !ok {
			continue
		}
		if _, err := loader.LoadFiles(buffered(b.fileSet())); err != nil {
			continue // the fault must be the only reason to refuse
		}
		if _, has := b.files["values.schema.json"]; has {
			continue // the root schema is the fault's to set
		}
		for _, f := range faults() {
			for _, entry := range []string{"save", "package"} {
				if !c.NextMine() {
					continue
				}
				f := f
				rd := replayData{Mode: "fault", Devs: ds, Entry: entry, Fault: &f}
				canon := fmt.Sprintf("fault|%v|%s|%d|%+q|%s", ds, f.Kind, f.Depth, f.Bad, entry)
				c.Mark(canon)
				c.Distinct(canon)
				c.Eval(1)
				fs, outcome := evalFault(rd)
				if len(fs) > 0 && len(ds) > 0 {
					// report the plain baseline when it shows the same thing
					rb := rd
					rb.Devs = nil
					if fb, _ := evalFault(rb); len(fb) > 0 && fb[0].Key == fs[0].Key {
						fs = fb
					}
				}
				c.Outcome(outcome)
				if outcome == "fault:refused-clean:"+entry {
					c.Floor("failed-write-left-nothing:" + entry + ":" + f.Kind)
					if sampled < 3 && len(ds) == 0 {
						sampled++
						c.Sample(map[string]any{"fault": rd, "refused": true, "files_left": 0})
					}
				}
				for _, x := range fs {
					c.Violate(prop, x.Key, x.What, x.Replay)
				}
			}
		}
	}
}
