package c15

import (
	"fmt"
	"os"
	"path/filepath"
	"strings"

	"helm.sh/helm/v4/pkg/action"
	chart "helm.sh/helm/v4/pkg/chart/v2"
	"helm.sh/helm/v4/pkg/chart/v2/loader"

	"verif/harness/internal/core"
)

// ---------- several charts through ONE action.Package value ----------
//
// `helm package dirA dirB` creates one action.Package and calls Run once per
// argument. What Run(B) writes must be B's content whatever was packaged
// before: per archive the oracle is the one of the single-chart route (archive
// named <name>-<version>.tgz, loaded archive equal to the loaded directory),
// with version / appVersion replaced by the --version / --app-version
// override when one is given - for every chart of the history.

// histChart is one chart of the history alphabet.
type histChart struct {
	Tok, Name, Version, App string
	Devs                    []string
}

var histCharts = []histChart{
	{Tok: "alpha-1.2.3", Name: "alpha", Version: "1.2.3", App: "1.0"},
	{Tok: "beta-rc", Name: "beta", Version: "0.4.0-rc.1+build.7"},                    // no appVersion
	{Tok: "alpha-2.0.0", Name: "alpha", Version: "2.0.0", App: "2.0"},                // same name as the first
	{Tok: "gamma-meta", Name: "gamma", Version: "0.0.1", Devs: []string{"meta-all"}}, // appVersion from meta-all
}

type histOverride struct{ Tok, Version, App string }

var histOverrides = []histOverride{{"none", "", ""}, {"version", "9.9.9", ""}, {"appversion", "", "7.7"}, {"both", "9.9.9", "7.7"}}

func (h histChart) files() []file {
	b, ok := buildCase(h.Devs)
	if !ok {
		panic("history chart does not build")
	}
	b.name, b.version = h.Name, h.Version
	if h.App != "" {
		b.metaYAML += "appVersion: " + yamlStr(h.App) + "\n"
	}
	return b.fileSet()
}

// evalHistory packages the charts Seq[0], Seq[1], ... with one action value.
func evalHistory(rd replayData) (fs []found, outcome string) {
	var ov *histOverride
	for i := range histOverrides {
		if histOverrides[i].Tok == rd.Override {
			ov = &histOverrides[i]
		}
	}
	if ov == nil {
		return nil, "not-a-case"
	}
	dir := scratch()
	defer os.RemoveAll(dir)
	pkg := action.NewPackage()
	pkg.Destination = filepath.Join(dir, "out")
	pkg.Version, pkg.AppVersion = ov.Version, ov.App
	var toks []string
	for _, ci := range rd.Seq {
		toks = append(toks, histCharts[ci].Tok)
	}
	seen := map[string]bool{}
	add := func(step int, kind, what string) {
		pos := "first-run"
		if step > 0 {
			pos = "later-run"
		}
		key := core.SanitizeKey("package-history/" + kind + "/" + pos + "/override=" + ov.Tok)
		if seen[key] {
			return
		}
		seen[key] = true
		fs = append(fs, found{Key: key, Replay: rd,
			What: strings.ReplaceAll(fmt.Sprintf("one action.Package value (override %s), Run over [%s]: run %d (%s): %s", ov.Tok, strings.Join(toks, ", "), step+1, toks[step], what), dir, "<tmp>")})
	}
	for step, ci := range rd.Seq {
		h := histCharts[ci]
		src := filepath.Join(dir, fmt.Sprintf("src%d", step), "chartdir")
		if err := writeTree(src, h.files()); err != nil {
			panic(err)
		}
		var path string
		err := guard(func() (e error) { path, e = pkg.Run(src, nil); return })
		if err != nil {
			add(step, "run-fails", fmt.Sprintf("Run fails: %v", err))
			continue
		}
		// expected: the directory's chart, with the override applied
		var want *chart.Chart
		if e := guard(func() (e error) { want, e = loader.LoadDir(src); return }); e != nil {
			panic(e)
		}
		if ov.Version != "" {
			want.Metadata.Version = ov.Version
		}
		if ov.App != "" {
			want.Metadata.AppVersion = ov.App
		}
		if wantName := h.Name + "-" + want.Metadata.Version + ".tgz"; filepath.Base(path) != wantName {
			add(step, "archive-name", fmt.Sprintf("archive is %s, want %s", filepath.Base(path), wantName))
		}
		var got *chart.Chart
		if e := guard(func() (e error) { got, e = loader.LoadFile(path); return }); e != nil {
			add(step, "reload-fails", fmt.Sprintf("archive cannot be loaded: %v", e))
			continue
		}
		var ds []diff
		compareCharts("", want, got, &ds)
		for _, d := range ds {
			add(step, d.Kind+"-"+d.Detail, d.String())
		}
	}
	if pkg.Version != ov.Version || pkg.AppVersion != ov.App {
		// not judged (the statement speaks of the archives), but worth a counter
		outcome = "history:action-fields-changed"
	}
	if len(fs) > 0 {
		return fs, "violation"
	}
	if outcome == "" {
		outcome = "history:every-archive-is-its-own-chart"
	}
	return nil, outcome
}

// runHistories: every sequence of length 2 (quick) / up to 3 (thorough) over
// the chart alphabet, with repetition, x every override.
func runHistories(c *core.Ctx) {
	maxLen := 2
	if c.Thorough() {
		maxLen = 3
	}
	c.Bound("package_history_length", fmt.Sprint(maxLen))
	n := len(histCharts)
	sampled := 0
	for l := 1; l <= maxLen; l++ {
		total := 1
		for i := 0; i < l; i++ {
			total *= n
		}
		for code := 0; code < total; code++ {
			seq := make([]int, l)
			for i, x := 0, code; i < l; i, x = i+1, x/n {
				seq[l-1-i] = x % n
			}
			for _, ov := range histOverrides {
				if !c.NextMine() {
					continue
				}
				rd := replayData{Mode: "history", Seq: seq, Override: ov.Tok}
				canon := fmt.Sprintf("history|%v|%s", seq, ov.Tok)
				c.Mark(canon)
				c.Distinct(canon)
				c.Eval(int64(l))
				fs, outcome := evalHistory(rd)
				c.Outcome(outcome)
				if len(fs) == 0 && l >= 2 {
					c.Floor("history-later-run-own-version:" + ov.Tok)
					if sampled < 2 && l == maxLen {
						sampled++
						c.Sample(map[string]any{"history": rd, "every_archive_equals_its_directory": true})
					}
				}
				for _, x := range fs {
					c.Violate(prop, x.Key, x.What, x.Replay)
				}
			}
		}
	}
}
