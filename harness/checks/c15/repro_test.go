package c15

// Stand-alone reproductions of what the check reports on the unchanged tree,
// against the public API only (no harness helpers). Run with
//   go test ./checks/c15 -run Repro -v
// Each test logs "DEFECT PRESENT: ..." while the behaviour is present (it does not fail, so go test ./... stays green).

import (
	"bytes"
	"os"
	"path/filepath"
	"testing"

	"helm.sh/helm/v4/pkg/action"
	chart "helm.sh/helm/v4/pkg/chart/v2"
	"helm.sh/helm/v4/pkg/chart/v2/loader"
	chartutil "helm.sh/helm/v4/pkg/chart/v2/util"
)

func tmp(t *testing.T) string {
	d, err := os.MkdirTemp("/var/tmp", "vc15-repro-")
	if err != nil {
		t.Fatal(err)
	}
	t.Cleanup(func() { os.RemoveAll(d) })
	return d
}

func write(t *testing.T, dir string, files map[string]string) {
	for n, s := range files {
		p := filepath.Join(dir, n)
		os.MkdirAll(filepath.Dir(p), 0o755)
		if err := os.WriteFile(p, []byte(s), 0o644); err != nil {
			t.Fatal(err)
		}
	}
}

func fileOf(c *chart.Chart, name string) []byte {
	for _, f := range c.Files {
		if f.Name == name {
			return f.Data
		}
	}
	return nil
}

// helm package of a directory changes a file that starts with two BOMs.
func TestReproDoubleBOMPackage(t *testing.T) {
	d := tmp(t)
	write(t, filepath.Join(d, "src"), map[string]string{
		"Chart.yaml": "apiVersion: v2\nname: base\nversion: 0.1.0\n",
		"blob.dat":   "\xEF\xBB\xBF\xEF\xBB\xBFpayload",
	})
	fromDir, err := loader.LoadDir(filepath.Join(d, "src"))
	if err != nil {
		t.Fatal(err)
	}
	p := action.NewPackage()
	p.Destination = filepath.Join(d, "out")
	path, err := p.Run(filepath.Join(d, "src"), nil)
	if err != nil {
		t.Fatal(err)
	}
	fromArchive, err := loader.LoadFile(path)
	if err != nil {
		t.Fatal(err)
	}
	if a, b := fileOf(fromDir, "blob.dat"), fileOf(fromArchive, "blob.dat"); !bytes.Equal(a, b) {
		t.Logf("DEFECT PRESENT: blob.dat: directory load %q, packaged and loaded %q", a, b)
	}
}

// a v1 chart's Chart.lock is loaded into Chart.Lock but never written by Save.
func TestReproV1ChartLockSave(t *testing.T) {
	d := tmp(t)
	c, err := loader.LoadFiles([]*loader.BufferedFile{
		{Name: "Chart.yaml", Data: []byte("apiVersion: v1\nname: base\nversion: 0.1.0\n")},
		{Name: "Chart.lock", Data: []byte("dependencies: []\ndigest: sha256:aa\ngenerated: \"2024-01-01T00:00:00Z\"\n")},
	})
	if err != nil || c.Lock == nil {
		t.Fatal(err, c.Lock)
	}
	path, err := chartutil.Save(c, d)
	if err != nil {
		t.Fatal(err)
	}
	c1, err := loader.LoadFile(path)
	if err != nil {
		t.Fatal(err)
	}
	if c1.Lock == nil {
		t.Logf("DEFECT PRESENT: Lock %+v is gone after Save -> LoadFile", *c.Lock)
	}
}

// a v1 chart that lists dependencies in Chart.yaml loses them on Save.
func TestReproV1ChartYamlDependenciesSave(t *testing.T) {
	d := tmp(t)
	c, err := loader.LoadFiles([]*loader.BufferedFile{
		{Name: "Chart.yaml", Data: []byte("apiVersion: v1\nname: base\nversion: 0.1.0\ndependencies:\n- name: dep\n  version: 1.0.0\n  repository: https://example.com\n")},
	})
	if err != nil || len(c.Metadata.Dependencies) != 1 {
		t.Fatal(err)
	}
	path, err := chartutil.Save(c, d)
	if err != nil {
		t.Fatal(err)
	}
	c1, err := loader.LoadFile(path)
	if err != nil {
		t.Fatal(err)
	}
	if len(c1.Metadata.Dependencies) != 1 {
		t.Logf("DEFECT PRESENT: metadata.dependencies: %d before, %d after Save -> LoadFile", len(c.Metadata.Dependencies), len(c1.Metadata.Dependencies))
	}
}

// SaveDir never writes Chart.lock.
func TestReproSaveDirDropsLock(t *testing.T) {
	d := tmp(t)
	c, err := loader.LoadFiles([]*loader.BufferedFile{
		{Name: "Chart.yaml", Data: []byte("apiVersion: v2\nname: base\nversion: 0.1.0\n")},
		{Name: "Chart.lock", Data: []byte("dependencies: []\ndigest: sha256:aa\ngenerated: \"2024-01-01T00:00:00Z\"\n")},
	})
	if err != nil || c.Lock == nil {
		t.Fatal(err)
	}
	if err := chartutil.SaveDir(c, d); err != nil {
		t.Fatal(err)
	}
	c1, err := loader.LoadDir(filepath.Join(d, "base"))
	if err != nil {
		t.Fatal(err)
	}
	if c1.Lock == nil {
		t.Logf("DEFECT PRESENT: Lock is gone after SaveDir -> LoadDir; files written: %v", regularFiles(d))
	}
}

// SaveDir writes templates/.hidden and a file matched by the chart's own
// .helmignore; LoadDir of that directory leaves them out.
func TestReproSaveDirIgnoredFiles(t *testing.T) {
	d := tmp(t)
	c, err := loader.LoadFiles([]*loader.BufferedFile{
		{Name: "Chart.yaml", Data: []byte("apiVersion: v2\nname: base\nversion: 0.1.0\n")},
		{Name: ".helmignore", Data: []byte("*.txt\n")},
		{Name: "notes.txt", Data: []byte("n")},
		{Name: "templates/.hidden", Data: []byte("h")},
	})
	if err != nil {
		t.Fatal(err)
	}
	if err := chartutil.SaveDir(c, d); err != nil {
		t.Fatal(err)
	}
	c1, err := loader.LoadDir(filepath.Join(d, "base"))
	if err != nil {
		t.Fatal(err)
	}
	if len(c1.Templates) != len(c.Templates) || len(c1.Files) != len(c.Files) {
		t.Logf("DEFECT PRESENT: templates %d -> %d, files %d -> %d", len(c.Templates), len(c1.Templates), len(c.Files), len(c1.Files))
	}
}

// charts named "." and ".." pass validation and are packaged.
func TestReproDotNamesPackaged(t *testing.T) {
	for _, n := range []string{".", ".."} {
		d := tmp(t)
		c := &chart.Chart{Metadata: &chart.Metadata{APIVersion: "v2", Name: n, Version: "0.1.0"}}
		path, err := chartutil.Save(c, d)
		if err == nil {
			_, lerr := loader.LoadFile(path)
			t.Logf("DEFECT PRESENT: chart named %q was packaged as %s (loading it again: %v)", n, filepath.Base(path), lerr)
		}
	}
}

// A dependency whose name only becomes "..", "." or "" once Metadata.Validate
// drops its non-printable characters is packaged: Save validates the root chart
// only, and validateName works on the raw name. The archive then either cannot
// be loaded or loads without the dependency.
func TestReproNestedNameCollapsesAfterSanitizing(t *testing.T) {
	for _, n := range []string{"\x01.\x02.", "..\x01", "\u200b"} {
		d := tmp(t)
		root := &chart.Chart{Metadata: &chart.Metadata{APIVersion: "v2", Name: "root", Version: "0.1.0"}}
		root.AddDependency(&chart.Chart{Metadata: &chart.Metadata{APIVersion: "v2", Name: n, Version: "0.1.0"}})
		path, err := chartutil.Save(root, d)
		if err != nil {
			continue
		}
		c, lerr := loader.LoadFile(path)
		deps := -1
		if lerr == nil {
			deps = len(c.Dependencies())
		}
		t.Logf("DEFECT PRESENT: Save packaged a dependency named %+q; loading the archive: err=%v, dependencies=%d (1 expected)", n, lerr, deps)
	}
}
