package c15

import (
	"archive/tar"
	"bytes"
	"compress/gzip"
	"fmt"
	"sort"
	"strings"
	"time"
)

// ---------- file sets ----------

// file is one member of a chart given as a file set.
type file struct {
	Name string
	Data []byte
}

var bom = []byte{0xEF, 0xBB, 0xBF}

// build is the chart under construction: baseline + the applied deviations.
type build struct {
	api      string
	name     string
	version  string
	metaYAML string // further top-level Chart.yaml keys (YAML text)
	depsYAML string // items of the dependencies: list in Chart.yaml
	chartPre []byte // bytes put in front of Chart.yaml
	chartCRL bool   // Chart.yaml with CRLF line ends

	files map[string][]byte
	owner map[string]string // file name -> deviation that wrote it ("" = baseline)
	cur   string            // deviation being applied
	clash bool              // two deviations wrote the same thing: not a case

	ignore    []string // .helmignore rule lines
	hasIgnore bool
	nDevs     int // number of deviations of the case
}

const (
	baseValues = "# a comment that only the raw file keeps\nreplicas: 1\nname: base\nnested:\n  k: v\n  num: 1.50\n"
	baseTpl    = "apiVersion: v1\nkind: ConfigMap\nmetadata:\n  name: {{ .Release.Name }}-cm\ndata:\n  k: {{ .Values.name | quote }}\n"
)

func newBuild() *build {
	b := &build{api: "v2", name: "base", version: "0.1.0", files: map[string][]byte{}, owner: map[string]string{}}
	b.files["values.yaml"] = []byte(baseValues)
	b.files["templates/cm.yaml"] = []byte(baseTpl)
	return b
}

// put writes a file; baseline files may be overridden, but two deviations
// writing the same file do not combine.
func (b *build) put(name string, data []byte) {
	if o, ok := b.owner[name]; ok && o != b.cur {
		b.clash = true
	}
	b.files[name] = data
	b.owner[name] = b.cur
}

func (b *build) puts(name, data string) { b.put(name, []byte(data)) }

func (b *build) putAll(prefix string, fs []file) {
	for _, f := range fs {
		b.put(prefix+f.Name, f.Data)
	}
}

// once marks a single-valued setting (apiVersion, Chart.yaml bytes, ignore
// file ...) as taken by the current deviation.
func (b *build) once(what string) {
	b.put("\x00setting/"+what, nil)
}

func (b *build) chartYAML() []byte {
	var sb strings.Builder
	fmt.Fprintf(&sb, "apiVersion: %s\nname: %s\nversion: %s\n", b.api, yamlStr(b.name), yamlStr(b.version))
	sb.WriteString(b.metaYAML)
	if b.depsYAML != "" {
		sb.WriteString("dependencies:\n" + b.depsYAML)
	}
	s := sb.String()
	if b.chartCRL {
		s = strings.ReplaceAll(s, "\n", "\r\n")
	}
	return append(append([]byte{}, b.chartPre...), s...)
}

// yamlStr writes a scalar for Chart.yaml as a YAML double-quoted string;
// control, format and other non-ASCII characters as \uXXXX escapes.
func yamlStr(s string) string {
	var sb strings.Builder
	sb.WriteByte('"')
	for _, r := range s {
		switch {
		case r == '\\' || r == '"':
			sb.WriteByte('\\')
			sb.WriteRune(r)
		case r < 0x20 || r == 0x7f || (r > 0x7e && r <= 0xffff):
			fmt.Fprintf(&sb, "\\u%04x", r)
		default:
			sb.WriteRune(r)
		}
	}
	sb.WriteByte('"')
	return sb.String()
}

// fileSet is the finished chart as a sorted list of files.
func (b *build) fileSet() []file {
	var out []file
	out = append(out, file{"Chart.yaml", b.chartYAML()})
	for n, d := range b.files {
		if strings.HasPrefix(n, "\x00") {
			continue
		}
		out = append(out, file{n, append([]byte{}, d...)})
	}
	if b.hasIgnore {
		out = append(out, file{".helmignore", []byte(strings.Join(b.ignore, "\n") + "\n")})
	}
	sort.Slice(out, func(i, j int) bool { return out[i].Name < out[j].Name })
	return out
}

// ---------- sub-charts ----------

func subchart(name, version string, extra ...file) []file {
	fs := []file{
		{"Chart.yaml", []byte(fmt.Sprintf("apiVersion: v2\nname: %s\nversion: %s\ndescription: sub-chart %s\n", name, version, name))},
		{"values.yaml", []byte("# " + name + " values\nenabled: true\ndata:\n  x: " + name + "\n")},
		{"templates/t.yaml", []byte("kind: ConfigMap\nmetadata:\n  name: " + name + "\n")},
		{"README.md", []byte("probe:sub:" + name + ":README.md\n")},
		{"notes.txt", []byte("probe:sub:" + name + ":notes.txt\n")},
		{"docs/d.md", []byte("probe:sub:" + name + ":docs/d.md\n")},
		{"files/blob.bin", []byte{0, 1, 0xff, 0xfe, 0, 'x'}},
	}
	return append(fs, extra...)
}

func withPrefix(p string, fs []file) []file {
	var out []file
	for _, f := range fs {
		out = append(out, file{p + f.Name, f.Data})
	}
	return out
}

// mkTgz is the harness' own archive writer (archive/tar + gzip, fixed time):
// every file as <top>/<name>, regular, 0644.
func mkTgz(top string, fs []file) []byte {
	var buf bytes.Buffer
	zw := gzip.NewWriter(&buf)
	tw := tar.NewWriter(zw)
	for _, f := range fs {
		h := &tar.Header{Name: top + "/" + f.Name, Mode: 0o644, Size: int64(len(f.Data)), ModTime: time.Unix(1700000000, 0), Typeflag: tar.TypeReg, Format: tar.FormatPAX}
		if err := tw.WriteHeader(h); err != nil {
			panic(err)
		}
		if _, err := tw.Write(f.Data); err != nil {
			panic(err)
		}
	}
	tw.Close()
	zw.Close()
	return buf.Bytes()
}

// ---------- the deviation table ----------

type deviation struct {
	ID    string
	Apply func(b *build)
	// Simpler lists deviations that do strictly less; minimisation tries them
	// in place of this one.
	Simpler []string
}

// ignore rule alphabet: short token (for ids and keys) and the rule line.
var ruleAlphabet = []struct{ Tok, Line string }{
	{"star-txt", "*.txt"},
	{"root-readme", "/README.md"},
	{"docs-dir", "docs/"},
	{"aQc", "a?c"},
	{"sub-star-tmp", "sub/*.tmp"},
	// root-anchored forms combined with the other rule features
	{"root-docs-dir", "/docs/"},         // anchored AND directory-only: the root docs/ with all below it, not sub/docs/
	{"root-sub-star-tmp", "/sub/*.tmp"}, // anchored with a glob below a directory
	{"root-aQc", "/a?c"},                // anchored with a single-character wildcard: root entries only
	// backslash escapes without any wildcard in the same rule (\c is the literal c, as in filepath.Match):
	// the regex habit of escaping a dot, and the only way to name a file that starts with '#'
	{"esc-dotenv", `\.env`},               // basename rule
	{"esc-secret-key", `secret\.key`},     // basename rule, escape in the middle
	{"root-esc-pem", `/private\.pem`},     // anchored
	{"conf-esc-yaml", `conf/local\.yaml`}, // with a directory component
	{"esc-hash", `\#scratch#`},            // not a comment
	{"comment", "# comment"},
	{"blank", ""},
}

// Probe files come with a .helmignore: for every rule of the alphabet paths
// that it must match and near misses that it must not. Every content is unique
// so that it can be searched for in an archive.
var probeGroups = []struct {
	Toks  []string // the rules these paths were designed for
	Names []string
}{
	{[]string{"root-readme"}, []string{"README.md", "sub/README.md"}},                                                      // rooted rule: only the first
	{[]string{"star-txt"}, []string{"notes.txt", "sub/notes.txt", "templates/extra.txt", "naïve-世界.txt", "notes.txt.bak"}}, // basename glob anywhere
	{[]string{"docs-dir", "root-docs-dir"}, []string{"docs/a.md", "docs/deep/b.md", "sub/docs/c.md", "other/docs"}},        // directories named docs at any depth (anchored: the root one only), not files
	{[]string{"aQc", "root-aQc"}, []string{"abc", "sub/abc", "aéc", "ac", "abbc", "adc/inner.md", "templates/a-c"}},        // ? = exactly one character; matches directories too
	{[]string{"sub-star-tmp", "root-sub-star-tmp"}, []string{"sub/x.tmp", "sub/deep/y.tmp", "x.tmp", "other/sub/z.tmp"}},   // structural: anchored at the root, * does not cross /
	{[]string{"esc-dotenv"}, []string{".env", "conf/.env"}},                                                                // escaped dot, basename rule: any depth
	{[]string{"esc-secret-key"}, []string{"secret.key", "secretXkey"}},                                                     // the escaped dot is a literal dot
	{[]string{"root-esc-pem"}, []string{"private.pem", "conf/private.pem"}},                                                // escaped + anchored
	{[]string{"conf-esc-yaml"}, []string{"conf/local.yaml", "other/conf/local.yaml"}},                                      // escaped, with a directory
	{[]string{"esc-hash"}, []string{"#scratch#", "scratch#"}},                                                              // escaped leading '#'
}

// innocents are kept in the reduced probe set whatever the rules are.
var innocents = []string{"README.md", "notes.txt", "docs/a.md", "abc"}

var probeNames = func() []string {
	var out []string
	for _, g := range probeGroups {
		out = append(out, g.Names...)
	}
	return out
}()

// ruleSetCount: non-empty subsets of size <= 2 of the alphabet.
func ruleSetCount() int { n := len(ruleAlphabet); return n + n*(n-1)/2 }

// probeFiles: the whole probe set, or (reduced) only the groups designed for
// the given rule tokens plus the innocents.
func probeFiles(reduced bool, toks []string) []file {
	want := map[string]bool{}
	for _, g := range probeGroups {
		use := !reduced
		for _, t := range g.Toks {
			for _, have := range toks {
				use = use || t == have
			}
		}
		if use {
			for _, n := range g.Names {
				want[n] = true
			}
		}
	}
	for _, n := range innocents {
		want[n] = true
	}
	var fs []file
	for _, n := range probeNames {
		if want[n] {
			fs = append(fs, file{n, []byte("probe:" + n + "\n")})
		}
	}
	return fs
}

func contentBytes(kind, base string) []byte {
	switch kind {
	case "empty":
		return []byte{}
	case "binary":
		return []byte{0x00, 0xFF, 0x01, 0xFE, 0x00, 'b', 'i', 'n', 0xFF, 0x00}
	case "bom":
		return append(append([]byte{}, bom...), base...)
	case "bom2":
		return append(append(append([]byte{}, bom...), bom...), base...)
	case "bombin":
		// a BOM in front of bytes that are not valid UTF-8 (a binary blob that happens to start with EF BB BF)
		return append(append([]byte{}, bom...), 0xFF, 0xFE, 0x00, 0x01, 'b', 'i', 'n', 0xC3, 0x28, 0x00)
	case "crlf":
		return []byte(strings.ReplaceAll(base, "\n", "\r\n"))
	}
	panic(kind)
}

const lockYAML = "dependencies:\n- name: depl\n  repository: https://charts.example.com/ü\n  version: 1.2.3\ndigest: sha256:0123456789abcdef0123456789abcdef0123456789abcdef0123456789abcdef\ngenerated: \"2024-02-29T12:34:56.123456789+05:30\"\n"

const metaAllYAML = `description: "line one\nline two — ünïcödé 世界"
home: https://example.com/ü
sources:
- https://example.com/src
- "git://example.com/ÿ.git"
keywords:
- k1
- "ключ"
maintainers:
- name: Ünï Maintainer
  email: m@example.com
  url: https://example.com/m
- name: second
icon: https://example.com/icon.png
condition: base.enabled
tags: "t1,t2"
appVersion: "1.16.0-β"
deprecated: true
annotations:
  example.com/a: "value with  spaces "
  z: "multi\nline\n"
  "unicode-ключ": "世界"
  number-like: "1.0"
kubeVersion: ">=1.20.0-0 <2.0.0"
type: library
`

const metaDepsYAML = `- name: depm
  version: ">=0.1.0 <1.0.0"
  repository: https://charts.example.com/ü
  condition: depm.enabled,global.depm
  tags:
  - front
  - "тег"
  enabled: true
  import-values:
  - data
  - child: exports.x
    parent: imported.x
  alias: depm-alias
- name: depq
  version: 0.2.0
  repository: "file://../depq"
`

const reqYAML = "dependencies:\n- name: depr\n  version: 0.5.0\n  repository: https://charts.example.com/r\n  alias: r1\n  tags:\n  - back\n"
const reqLock = "dependencies:\n- name: depr\n  repository: https://charts.example.com/r\n  version: 0.5.0\ndigest: sha256:aaaa\ngenerated: \"2023-01-02T03:04:05Z\"\n"

const schemaJSON = "{\n  \"$schema\": \"http://json-schema.org/draft-07/schema#\",\n  \"type\": \"object\",\n  \"properties\": {\"replicas\": {\"type\": \"integer\", \"description\": \"ünï\"}}\n}\n"

func deviations() []deviation {
	var ds []deviation
	add := func(id string, f func(b *build), simpler ...string) { ds = append(ds, deviation{id, f, simpler}) }

	// apiVersion v1, alone and with its deprecated dependency files
	v1 := func(b *build) { b.once("api"); b.api = "v1" }
	req := func(b *build) {
		b.puts("requirements.yaml", reqYAML)
		b.putAll("charts/depr/", subchart("depr", "0.5.0"))
	}
	add("v1", v1)
	add("v1+req", func(b *build) { v1(b); req(b) }, "v1")
	add("v1+req+reqlock", func(b *build) { v1(b); req(b); b.puts("requirements.lock", reqLock) }, "v1+req", "v1")
	// the deprecated files next to whatever apiVersion the chart has
	add("req", req)
	add("reqlock", func(b *build) { b.puts("requirements.lock", reqLock) })

	add("meta-all", func(b *build) { b.once("meta"); b.metaYAML = metaAllYAML })
	add("meta-deps", func(b *build) {
		b.once("deps")
		b.depsYAML = metaDepsYAML
		b.putAll("charts/depm/", subchart("depm", "0.3.0", file{"values.schema.json", []byte(`{"type":"object"}`)}))
		b.put("charts/depq-0.2.0.tgz", mkTgz("depq", subchart("depq", "0.2.0")))
	})
	add("chart-lock", func(b *build) { b.puts("Chart.lock", lockYAML) })
	add("schema", func(b *build) { b.puts("values.schema.json", schemaJSON) })

	// file names
	add("name-nested", func(b *build) {
		b.puts("files/deep/er/config.ini", "[a]\nb=c\n")
		b.puts("templates/sub/deep/helper.tpl", "{{- define \"x\" -}}x{{- end -}}\n")
		b.puts("conf/Chart.yaml", "not: a chart file here\n")
		b.puts("conf/values.yaml", "not: the values file\n")
		b.puts("templates/values.yaml", "kind: NotValues\n")
	})
	add("name-unicode", func(b *build) {
		b.puts("данные/naïve-世界.dat", "unicode name\n")
		b.puts("templates/ünï.yaml", "kind: Ü\n")
	})
	add("name-dotfile", func(b *build) {
		b.puts(".dotfile", "dot\n")
		b.puts("conf/.hidden.yaml", "h: 1\n")
		b.puts(".config/inner", "inner\n")
	})
	add("name-tpl-hidden", func(b *build) {
		b.puts("templates/.hidden", "hidden template\n")
		b.puts("templates/.hdir/t.yaml", "in hidden dir\n")
		b.puts("templates/sub/.hidden2", "hidden deeper\n")
	})
	add("name-spaces", func(b *build) {
		b.puts("my file.dat", "spaces\n")
		b.puts("dir with space/f 1.md", "spaces in dir\n")
		b.puts("templates/my tpl.yaml", "kind: Spaced\n")
		b.puts("trailing ", "trailing space\n")
	})

	// contents x where
	for _, tgt := range []string{"file", "tpl", "values"} {
		for _, kind := range []string{"empty", "binary", "bom", "bom2", "bombin", "crlf"} {
			tgt, kind := tgt, kind
			add("content-"+kind+"@"+tgt, func(b *build) {
				switch tgt {
				case "file":
					b.put("blob.dat", contentBytes(kind, "text body\nsecond line\n"))
				case "tpl":
					b.put("templates/cm.yaml", contentBytes(kind, baseTpl))
				case "values":
					b.put("values.yaml", contentBytes(kind, baseValues))
				}
			})
		}
	}
	for _, kind := range []string{"bom", "bom2", "crlf"} {
		kind := kind
		add("content-"+kind+"@chart", func(b *build) {
			b.once("chartbytes")
			switch kind {
			case "bom":
				b.chartPre = bom
			case "bom2":
				b.chartPre = append(append([]byte{}, bom...), bom...)
			case "crlf":
				b.chartCRL = true
			}
		})
	}

	// dependencies
	add("dep-dir", func(b *build) { b.putAll("charts/depd/", subchart("depd", "0.2.0")) })
	add("dep-tgz", func(b *build) { b.put("charts/dept-0.2.0.tgz", mkTgz("dept", subchart("dept", "0.2.0"))) })
	add("dep-nested", func(b *build) {
		b.putAll("charts/depn/", subchart("depn", "1.0.0"))
		b.putAll("charts/depn/charts/inner/", subchart("inner", "0.0.1", file{"Chart.lock", []byte(lockYAML)}))
		b.put("charts/depn/charts/innert-0.3.0.tgz", mkTgz("innert", subchart("innert", "0.3.0")))
	})
	add("dep-tgz-nested", func(b *build) {
		fs := subchart("depz", "0.4.0")
		fs = append(fs, withPrefix("charts/zin/", subchart("zin", "0.0.2"))...)
		b.put("charts/depz-0.4.0.tgz", mkTgz("depz", fs))
	})

	// .helmignore: every non-empty subset of size <= 2 of the rule alphabet
	for i := range ruleAlphabet {
		for j := i; j < len(ruleAlphabet); j++ {
			i, j := i, j
			id := "ign:" + ruleAlphabet[i].Tok
			rules := []string{ruleAlphabet[i].Line}
			toks := []string{ruleAlphabet[i].Tok}
			var simpler []string
			if j > i {
				simpler = []string{id, "ign:" + ruleAlphabet[j].Tok}
				id += "," + ruleAlphabet[j].Tok
				rules = append(rules, ruleAlphabet[j].Line)
				toks = append(toks, ruleAlphabet[j].Tok)
			}
			add(id, func(b *build) {
				b.once("ignore")
				b.hasIgnore = true
				b.ignore = rules
				// with three deviations (thorough tier) only the probes of the set's own rules
				b.putAll("", probeFiles(b.nDevs >= 3, toks))
			}, simpler...)
		}
	}
	return ds
}

var devTable = deviations()

func devByID(id string) *deviation {
	for i := range devTable {
		if devTable[i].ID == id {
			return &devTable[i]
		}
	}
	return nil
}

// buildCase applies the deviations (table order) to the baseline; ok=false
// when two of them set the same file or setting.
func buildCase(ids []string) (*build, bool) {
	b := newBuild()
	b.nDevs = len(ids)
	for _, id := range ids {
		d := devByID(id)
		if d == nil {
			return nil, false
		}
		b.cur = id
		d.Apply(b)
	}
	return b, !b.clash
}
