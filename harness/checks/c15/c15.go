// Package c15: packaging and loading a chart preserves its content.
//
// Charts are generated as FILE SETS (a baseline plus a bounded number of
// deviations from a table) and pushed through the real loader / Save / SaveDir
// / action.Package code on a scratch directory. The oracle is a field-by-field
// comparison of the two in-memory charts, a reference .helmignore matcher for
// the restricted rule alphabet, and the harness' own tar reader/writer.
package c15

import (
	"bytes"
	"crypto/sha256"
	"encoding/hex"
	"encoding/json"
	"fmt"
	"os"
	"path/filepath"
	"sort"
	"strconv"
	"strings"
	"unicode"

	"helm.sh/helm/v4/pkg/action"
	chart "helm.sh/helm/v4/pkg/chart/v2"
	"helm.sh/helm/v4/pkg/chart/v2/loader"
	chartutil "helm.sh/helm/v4/pkg/chart/v2/util"

	"verif/harness/internal/core"
)

const prop = "C15"

func init() {
	core.Register(&core.Check{
		ID:    prop,
		Level: "exploration",
		Rule: "a chart is a file set: baseline (Chart.yaml v2, values.yaml, one template) plus every conflict-free subset of <=2 (quick) / <=3 (thorough; a two-rule .helmignore counts as two there) deviations from a table of " +
			fmt.Sprint(len(devTable)) + " (apiVersion v1 +requirements.yaml/.lock, all optional metadata, declared dependencies, Chart.lock, schema, 5 file-name shapes, 6 contents (incl. BOM + invalid UTF-8) x {file,template,values} + 3 x Chart.yaml, " +
			"4 dependency layouts, " + fmt.Sprint(ruleSetCount()) + " .helmignore rule sets with " + fmt.Sprint(len(probeNames)) + " probe files - in cases of three deviations only the probes designed for the set's own rules plus 4 innocents); each runs LoadFiles->Save->LoadFile, LoadFiles->SaveDir->LoadDir (not for a .helmignore set combined with other deviations), dir->LoadDir vs dir->Package->LoadFile, dir->LoadDir vs own-tar->LoadArchive; " +
			"plus invalid name/version x <=1 deviation (one .helmignore set only) x {Save, Package, Package --version}; plus write-phase faults (invalid chart name - plainly invalid or collapsing to one after sanitizing - 1 or 2 levels down the dependency tree, values.schema.json that is not JSON at depth 0..2) x <=1 deviation x {Save, Package}: error => no file in the destination; plus histories on ONE action.Package value: every sequence (with repetition) of 1..2 (quick) / 1..3 (thorough) charts out of 4 (different names/versions/appVersions, one name twice) x {no override, --version, --app-version, both}: every archive is named and filled from its own directory (+ override). distinct = (resulting file set) / (invalid tuple) / (fault tuple) / (history, override); every case is non-trivial: it reaches the tar writer or a validation error",
		Run:    run,
		Replay: replay,
		Assumptions: []string{
			"Linux file system semantics (byte file names, '/' separator); /var/tmp scratch directory per worker process",
			"'the same chart' is judged on what the statement lists: metadata fields, raw values.yaml bytes, parsed values, schema bytes, lock (time with Equal), templates and files by name byte for byte, dependency tree by chart name; order of files/dependencies and Chart.Raw other than values.yaml are not compared (Chart.yaml is re-serialised by design)",
			"nil, empty list, empty map and empty string are the same value of an optional metadata field",
			".helmignore rule alphabet: literals, '*', '?', leading '/', trailing '/' (also both on one rule, and leading '/' with a glob), backslash-escaped literals (plain, anchored, below a directory, escaped leading '#'), comment, blank line - at most two rules per file; negation, character classes, a file name containing a backslash and '**' are not generated; the loader's built-in rule templates/.?* is part of the reference matcher",
			"a Save/Package that returns an error must leave no file below its destination, whatever made it fail after the archive file was created (generated: a nested chart with an invalid name, attached in memory because the loader refuses it; a schema file that is not JSON)",
			"invalid names are ../x, a/b and the empty string, invalid versions 1.x and the empty string, as the property lists them; a name is judged as Helm uses it, i.e. after non-printable characters (control, zero-width, BOM, soft hyphen) are dropped, so names that collapse to '', '.', '..' or ../x are invalid too (8 such names, in-memory through Save and on disk through Package); the names '.' and '..' are counted as invalid too (they relocate the archive entries like ../x does) and are reported under keys of their own",
		},
		RequiredFloors: []string{"roundtrip-equal:save", "roundtrip-equal:savedir", "roundtrip-equal:package", "dir-vs-archive-equal", "ignored-file-kept-out-of-archive",
			"ignored-by-directory-rule", "rule-matched-nothing-extra", "input-rejected", "dep-tree-depth-2", "apiversion-v1", "lock-compared", "schema-compared", "bom-seen", "invalid-rejected:save", "invalid-rejected:package",
			"failed-write-left-nothing:save:nested-name", "failed-write-left-nothing:save:schema", "failed-write-left-nothing:package:nested-name", "failed-write-left-nothing:package:schema",
			"history-later-run-own-version:none", "history-later-run-own-version:version", "history-later-run-own-version:appversion", "history-later-run-own-version:both"},
	})
}

// ---------- scratch space ----------

var (
	tmpRoot = fmt.Sprintf("/var/tmp/vc15-%d", os.Getpid())
	tmpSeq  int
)

func scratch() string {
	tmpSeq++
	d := filepath.Join(tmpRoot, fmt.Sprint(tmpSeq))
	os.RemoveAll(d)
	if err := os.MkdirAll(d, 0o755); err != nil {
		panic(err)
	}
	return d
}

func cleanup() { os.RemoveAll(tmpRoot) }

func writeTree(dir string, fs []file) error {
	for _, f := range fs {
		p := filepath.Join(dir, filepath.FromSlash(f.Name))
		if err := os.MkdirAll(filepath.Dir(p), 0o755); err != nil {
			return err
		}
		if err := os.WriteFile(p, f.Data, 0o644); err != nil {
			return err
		}
	}
	return nil
}

// regularFiles lists every non-directory below dir.
func regularFiles(dir string) []string {
	var out []string
	filepath.Walk(dir, func(p string, fi os.FileInfo, err error) error {
		if err == nil && !fi.IsDir() {
			out = append(out, p)
		}
		return nil
	})
	sort.Strings(out)
	return out
}

func buffered(fs []file) []*loader.BufferedFile {
	var out []*loader.BufferedFile
	for _, f := range fs {
		out = append(out, &loader.BufferedFile{Name: f.Name, Data: append([]byte{}, f.Data...)})
	}
	return out
}

// guard runs f and turns a panic into an error.
func guard(f func() error) (err error) {
	defer func() {
		if r := recover(); r != nil {
			err = fmt.Errorf("panic: %v", r)
		}
	}()
	return f()
}

// ---------- one case ----------

// issue is one observed contradiction of the statement.
type issue struct {
	Route  string // save-loadfile | savedir-loaddir | package-loadfile | dir-vs-archive | loaddir | package
	Kind   string // diff kind, or retained-set / tar-listing / save-fails ...
	Detail string
	Class  string // non-empty: a recognised class whose key does not depend on the deviation set
	What   string
}

func (i issue) group() string {
	if i.Class != "" {
		return i.Route + "/" + i.Class
	}
	return i.Route + "/" + i.Kind + "/" + i.Detail
}

// outcome of a case, for the counters.
type caseResult struct {
	Issues   []issue
	Outcomes []string
	Floors   []string
}

func (r *caseResult) out(s string)   { r.Outcomes = append(r.Outcomes, s) }
func (r *caseResult) floor(s string) { r.Floors = append(r.Floors, s) }

// classify turns chart differences into issues: recognised classes get a
// Class, differences the statement excuses on this route are dropped.
func classify(route string, rules []string, ds []diff, res *caseResult) {
	isBOM := func(d diff) bool {
		return d.Detail == "differs" && bytes.HasPrefix(d.A, bom) && bytes.Equal(d.B, d.A[len(bom):])
	}
	// a values.yaml that loses a BOM may also parse differently: same cause
	bomValues := map[string]bool{}
	for _, d := range ds {
		if d.Kind == "values-raw" && isBOM(d) {
			bomValues[strings.TrimSuffix(d.Path, "values.yaml")+"values"] = true
		}
	}
	for _, d := range ds {
		is := issue{Route: route, Kind: d.Kind, Detail: d.Detail, What: d.String()}
		content := d.Kind == "template" || d.Kind == "file" || d.Kind == "values-raw" || d.Kind == "schema"
		switch {
		case content && route == "dir-vs-archive" && (isBOM(d) || isBOM(diff{Detail: d.Detail, A: d.B, B: d.A})):
			// both loaders strip a leading BOM (the known behaviour); here only one of them did
			is.Class = "bom-stripped-by-one-loader-only"
			is.What = fmt.Sprintf("%s %s: the archive loader gives %s, the directory loader gives %s - a leading UTF-8 BOM is stripped by one of the two loaders only", d.Kind, d.Path, excerpt(d.A), excerpt(d.B))
		case content && isBOM(d):
			is.Class = "leading-bom-stripped"
			is.What = fmt.Sprintf("%s %s starts with a UTF-8 BOM (%s); after the round trip the first BOM is gone (%s)", d.Kind, d.Path, excerpt(d.A), excerpt(d.B))
		case d.Kind == "values-parsed" && bomValues[d.Path]:
			is.Class = "leading-bom-stripped"
			is.What = "values.yaml loses its first UTF-8 BOM in the round trip and then parses differently: " + d.String()
		case (d.Kind == "template" || d.Kind == "file") && d.Detail == "missing-after":
			if ign, rule := refIgnored(rules, d.Path); ign {
				if route == "dir-vs-archive" {
					res.floor("dir-vs-archive-ignored-file-exempt")
					continue // "apart from files excluded by ignore rules"
				}
				if route == "savedir-loaddir" {
					// Loading a directory honours ignore rules; the statement itself excepts
					// "files excluded by ignore rules" for directory loads, so a file that
					// SaveDir wrote and LoadDir's rules drop again is counted, not judged.
					_ = rule
					res.floor("savedir-loaddir-ignored-file-exempt")
					continue
				}
			}
		}
		res.Issues = append(res.Issues, is)
	}
}

// evalCase runs all routes for one deviation set.
func evalCase(ids []string) (res caseResult) {
	b, ok := buildCase(ids)
	if !ok {
		res.out("not-a-case")
		return
	}
	fs := b.fileSet()
	dir := scratch()
	defer os.RemoveAll(dir)
	if b.api == "v1" {
		res.floor("apiversion-v1")
	}
	for _, f := range fs {
		if bytes.HasPrefix(f.Data, bom) {
			res.floor("bom-seen")
		}
	}

	// ----- (a) and (b): in-memory chart from the file set
	var c0 *chart.Chart
	err := guard(func() (e error) { c0, e = loader.LoadFiles(buffered(fs)); return })
	if err != nil {
		res.out("mem:input-rejected")
		res.floor("input-rejected")
	} else {
		if depDepth(c0) >= 2 {
			res.floor("dep-tree-depth-2")
		}
		routeSave(c0, fs, b, dir, &res)
		// SaveDir -> LoadDir is run for every chart without a .helmignore and for
		// every .helmignore set on the baseline; a rule set combined with further
		// deviations adds nothing there (ignored files are exempt on that route,
		// the rest is the other deviation's own case) and is left out for cost.
		if !(b.hasIgnore && len(ids) > 1) {
			routeSaveDir(fs, b, dir, &res)
		}
	}

	// ----- (c) and (d): the file set as a directory
	routeDir(fs, b, dir, &res)
	for i := range res.Issues {
		res.Issues[i].What = strings.ReplaceAll(res.Issues[i].What, dir, "<tmp>")
	}
	return
}

func routeSave(c0 *chart.Chart, fs []file, b *build, dir string, res *caseResult) {
	const route = "save-loadfile"
	out := filepath.Join(dir, "a-out")
	var path string
	err := guard(func() (e error) { path, e = chartutil.Save(c0, out); return })
	if err != nil {
		res.Issues = append(res.Issues, issue{Route: route, Kind: "save-fails", Detail: "error", What: fmt.Sprintf("Save of a chart that LoadFiles accepted fails: %v", err)})
		return
	}
	var c1 *chart.Chart
	err = guard(func() (e error) { c1, e = loader.LoadFile(path); return })
	if err != nil {
		res.Issues = append(res.Issues, issue{Route: route, Kind: "reload-fails", Detail: "error", What: fmt.Sprintf("archive written by Save cannot be loaded: %v", err)})
		return
	}
	// compare against a second, untouched load of the same file set, so that a
	// Save that modifies its argument cannot hide a loss
	pristine, _ := loader.LoadFiles(buffered(fs))
	var ds []diff
	compareCharts("", pristine, c1, &ds)
	noteCompared(c0, res)
	if len(ds) == 0 {
		res.out("a:equal")
		res.floor("roundtrip-equal:save")
	} else {
		res.out("a:differs")
	}
	classify(route, b.ignore, ds, res)
}

func noteCompared(c *chart.Chart, res *caseResult) {
	if c.Lock != nil {
		res.floor("lock-compared")
	}
	if c.Schema != nil {
		res.floor("schema-compared")
	}
}

func routeSaveDir(fs []file, b *build, dir string, res *caseResult) {
	const route = "savedir-loaddir"
	c0, err := loader.LoadFiles(buffered(fs))
	if err != nil {
		return
	}
	out := filepath.Join(dir, "b-out")
	err = guard(func() error { return chartutil.SaveDir(c0, out) })
	if err != nil {
		res.Issues = append(res.Issues, issue{Route: route, Kind: "save-fails", Detail: "error", What: fmt.Sprintf("SaveDir of a chart that LoadFiles accepted fails: %v", err)})
		return
	}
	var c2 *chart.Chart
	err = guard(func() (e error) { c2, e = loader.LoadDir(filepath.Join(out, c0.Name())); return })
	if err != nil {
		res.Issues = append(res.Issues, issue{Route: route, Kind: "reload-fails", Detail: "error", What: fmt.Sprintf("directory written by SaveDir cannot be loaded: %v", err)})
		return
	}
	pristine, _ := loader.LoadFiles(buffered(fs))
	var ds []diff
	compareCharts("", pristine, c2, &ds)
	if len(ds) == 0 {
		res.out("b:equal")
		res.floor("roundtrip-equal:savedir")
	} else {
		res.out("b:differs")
	}
	classify(route, b.ignore, ds, res)
}

func routeDir(fs []file, b *build, dir string, res *caseResult) {
	src := filepath.Join(dir, "srcdir")
	if err := writeTree(src, fs); err != nil {
		panic(err)
	}
	// reference: which files of the directory do the ignore rules exclude
	ignored := map[string]string{}
	var wantKept []string
	for _, f := range fs {
		if ign, rule := refIgnored(b.ignore, f.Name); ign {
			ignored[f.Name] = rule
			if strings.HasSuffix(strings.TrimSpace(rule), "/") {
				res.floor("ignored-by-directory-rule")
			}
		} else {
			wantKept = append(wantKept, f.Name)
		}
	}

	var D *chart.Chart
	errD := guard(func() (e error) { D, e = loader.LoadDir(src); return })

	// (d) the same content as an archive written by the harness
	var T *chart.Chart
	errT := guard(func() (e error) { T, e = loader.LoadArchive(bytes.NewReader(mkTgz(b.name, fs))); return })
	switch {
	case errD != nil && errT != nil:
		res.out("dir:input-rejected")
		res.floor("input-rejected")
		return
	case errD != nil || errT != nil:
		res.Issues = append(res.Issues, issue{Route: "dir-vs-archive", Kind: "load-disagrees", Detail: "error",
			What: fmt.Sprintf("the same content loads from one form only: LoadDir error=%v, LoadArchive error=%v", errD, errT)})
		if errD != nil {
			return
		}
	}

	// LoadDir keeps exactly the files the rules do not exclude
	var got []string
	for _, f := range D.Raw {
		got = append(got, f.Name)
	}
	sort.Strings(got)
	gotSet := map[string]bool{}
	for _, n := range got {
		gotSet[n] = true
	}
	exact := true
	for _, n := range got {
		if rule, ign := ignored[n]; ign {
			exact = false
			res.Issues = append(res.Issues, issue{Route: "loaddir", Kind: "retained-set", Detail: "ignored-file-loaded",
				What: fmt.Sprintf("LoadDir loaded %s although .helmignore %q excludes it (rule %q)", n, b.ignore, rule)})
		}
	}
	for _, n := range wantKept {
		if !gotSet[n] {
			exact = false
			res.Issues = append(res.Issues, issue{Route: "loaddir", Kind: "retained-set", Detail: "file-not-loaded",
				What: fmt.Sprintf("LoadDir did not load %s although no rule of .helmignore %q matches it", n, b.ignore)})
		}
	}
	if exact && b.hasIgnore {
		res.floor("rule-matched-nothing-extra")
	}

	if errT == nil {
		var ds []diff
		compareCharts("", T, D, &ds)
		n := len(res.Issues)
		classify("dir-vs-archive", b.ignore, ds, res)
		if len(res.Issues) == n {
			res.out("d:equal-apart-from-ignored")
			res.floor("dir-vs-archive-equal")
		} else {
			res.out("d:differs")
		}
	}

	// (c) package the directory
	out := filepath.Join(dir, "c-out")
	pkg := action.NewPackage()
	pkg.Destination = out
	var path string
	err := guard(func() (e error) { path, e = pkg.Run(src, nil); return })
	if err != nil {
		res.Issues = append(res.Issues, issue{Route: "package", Kind: "package-fails", Detail: "error", What: fmt.Sprintf("action.Package fails on a directory that LoadDir accepts: %v", err)})
		return
	}
	entries, err := readTgz(path)
	if err != nil {
		res.Issues = append(res.Issues, issue{Route: "package", Kind: "archive-unreadable", Detail: "error", What: fmt.Sprintf("archive written by action.Package is not a readable tgz: %v", err)})
		return
	}
	clean := true
	for _, e := range entries {
		rel := strings.TrimPrefix(e.Name, b.name+"/")
		if rule, ign := ignored[rel]; ign {
			clean = false
			res.Issues = append(res.Issues, issue{Route: "package", Kind: "tar-listing", Detail: "ignored-file-in-archive",
				What: fmt.Sprintf("packaged archive lists %s although .helmignore %q excludes it (rule %q)", e.Name, b.ignore, rule)})
			continue
		}
		for n, rule := range ignored {
			if bytes.HasPrefix(e.Data, []byte("probe:")) && bytes.Equal(e.Data, fileData(fs, n)) {
				clean = false
				res.Issues = append(res.Issues, issue{Route: "package", Kind: "tar-listing", Detail: "ignored-content-in-archive",
					What: fmt.Sprintf("packaged archive entry %s carries the content of %s, which .helmignore rule %q excludes", e.Name, n, rule)})
			}
		}
	}
	if clean && len(ignored) > 0 {
		res.floor("ignored-file-kept-out-of-archive")
	}
	var A *chart.Chart
	err = guard(func() (e error) { A, e = loader.LoadFile(path); return })
	if err != nil {
		res.Issues = append(res.Issues, issue{Route: "package-loadfile", Kind: "reload-fails", Detail: "error", What: fmt.Sprintf("archive written by action.Package cannot be loaded: %v", err)})
		return
	}
	// D was handed to nobody; Package loaded its own copy.
	var ds []diff
	compareCharts("", D, A, &ds)
	noteCompared(D, res)
	if len(ds) == 0 {
		res.out("c:equal")
		res.floor("roundtrip-equal:package")
	} else {
		res.out("c:differs")
	}
	classify("package-loadfile", b.ignore, ds, res)
}

// digest identifies a file set (names and contents).
func digest(fs []file) string {
	h := sha256.New()
	for _, f := range fs {
		fmt.Fprintf(h, "%d:%s:%d:", len(f.Name), f.Name, len(f.Data))
		h.Write(f.Data)
	}
	return hex.EncodeToString(h.Sum(nil))
}

func fileData(fs []file, name string) []byte {
	for _, f := range fs {
		if f.Name == name {
			return f.Data
		}
	}
	return nil
}

// ---------- reporting with minimisation ----------

type replayData struct {
	Mode     string   `json:"mode"` // rt | invalid | fault | history
	Devs     []string `json:"devs"`
	Name     string   `json:"name,omitempty"`
	Version  string   `json:"version,omitempty"`
	Override string   `json:"override,omitempty"`
	Entry    string   `json:"entry,omitempty"`
	Fault    *fault   `json:"fault,omitempty"`
	Seq      []int    `json:"seq,omitempty"` // history: indices into histCharts
}

type found struct {
	Key, What string
	Replay    replayData
}

func hasGroup(is []issue, g string) *issue {
	for i := range is {
		if is[i].group() == g {
			return &is[i]
		}
	}
	return nil
}

// report turns the issues of one case into keyed findings. Recognised classes
// are keyed by route and class; everything else by route, kind and the
// smallest sub-set of the deviations that still shows it.
func report(ids []string, issues []issue) []found {
	var out []found
	seen := map[string]bool{}
	for _, is := range issues {
		g := is.group()
		if seen[g] {
			continue
		}
		seen[g] = true
		cur, what := ids, is.What
		switch {
		case is.Class != "" && minimisedClass[g]:
		case is.Class == "" && knownMinimal(g, ids) != nil:
			m := knownMinimal(g, ids)
			cur, what = m.ids, m.what
		default:
			cur, what = minimise(ids, g, is.What)
			minimisedClass[g] = true
			minimalSets[g] = append(minimalSets[g], minimalSet{cur, what})
		}
		key := g
		if is.Class == "" {
			key += "/devs=" + strings.Join(cur, "+")
			if len(cur) == 0 {
				key += "baseline"
			}
		}
		out = append(out, found{Key: core.SanitizeKey(key), What: fmt.Sprintf("[%s; chart = baseline + {%s}] %s", is.Route, strings.Join(cur, ", "), what),
			Replay: replayData{Mode: "rt", Devs: cur}})
	}
	return out
}

// minimisedClass: recognised classes are minimised once per process (their
// key does not depend on the result; only the written-out example does).
var minimisedClass = map[string]bool{}

// minimalSets remembers, per issue group, the minimised deviation sets this
// process has already executed and seen failing. A later case that contains
// one of them (directly or as a simpler form of one of its deviations) is
// reported under that set without minimising again: the set itself was run, so
// the report is about an executed case, and the cost of a defect that breaks
// many cases stays bounded.
type minimalSet struct {
	ids  []string
	what string
}

var minimalSets = map[string][]minimalSet{}

func simplerOrSame(id, m string) bool {
	if id == m {
		return true
	}
	for _, s := range devByID(id).Simpler {
		if simplerOrSame(s, m) {
			return true
		}
	}
	return false
}

func knownMinimal(g string, ids []string) *minimalSet {
	for i, m := range minimalSets[g] {
		all := true
		for _, want := range m.ids {
			found := false
			for _, id := range ids {
				if simplerOrSame(id, want) {
					found = true
				}
			}
			all = all && found
		}
		if all {
			return &minimalSets[g][i]
		}
	}
	return nil
}

// minimise greedily drops deviations, then replaces them by simpler ones, as
// long as the case still shows an issue of group g.
func minimise(ids []string, g, what string) ([]string, string) {
	cur := ids
	shows := func(try []string) bool {
		if _, ok := buildCase(try); !ok {
			return false
		}
		if h := hasGroup(evalCase(try).Issues, g); h != nil {
			cur, what = try, h.What
			return true
		}
		return false
	}
	for changed := true; changed; {
		changed = false
		for i := 0; i < len(cur); {
			if shows(append(append([]string{}, cur[:i]...), cur[i+1:]...)) {
				changed = true
			} else {
				i++
			}
		}
		for i := 0; i < len(cur); i++ {
			for _, s := range devByID(cur[i]).Simpler {
				try := append([]string{}, cur...)
				try[i] = s
				if shows(try) {
					changed = true
					break
				}
			}
		}
	}
	return cur, what
}

func replay(c *core.Ctx, data json.RawMessage) []core.Violation {
	defer cleanup()
	var rd replayData
	if err := json.Unmarshal(data, &rd); err != nil {
		return nil
	}
	var fs []found
	if rd.Mode == "invalid" {
		fs = evalInvalid(rd)
	} else if rd.Mode == "fault" {
		fs, _ = evalFault(rd)
	} else if rd.Mode == "history" {
		fs, _ = evalHistory(rd)
	} else {
		fs = report(rd.Devs, evalCase(rd.Devs).Issues)
	}
	var vs []core.Violation
	for _, f := range fs {
		b, _ := json.Marshal(f.Replay)
		vs = append(vs, core.Violation{Property: prop, Key: f.Key, What: f.What, Replay: b})
	}
	return vs
}

// ---------- invalid names and versions ----------

// usedName is the name as Helm uses it: Metadata.Validate maps white space to
// ' ' and drops every other non-printable character (control characters,
// zero-width and other format characters) before anything is written.
func usedName(n string) string {
	return strings.Map(func(r rune) rune {
		switch {
		case unicode.IsSpace(r):
			return ' '
		case unicode.IsPrint(r):
			return r
		}
		return -1
	}, n)
}

// isInvalidName: the names the property lists (empty, or containing a path
// separator) plus the two path-special names "." and "..", which change the
// location of the archive's entries exactly like ../x does - judged on the
// name as it is used, so "..\x01" and ".\u200b" are invalid like ".." and ".".
func isInvalidName(n string) bool {
	n = usedName(n)
	return n == "" || n == "." || n == ".." || strings.ContainsAny(n, "/")
}

// collapsingNames only become invalid once their non-printable characters are dropped.
var collapsingNames = []string{"..\x01", "\x01.\x02.", ".\u200b", "\ufeff..", ".\x7f", "\u200b", "\x01\u00ad", "\u200b../x"}

func isInvalidVersion(v string) bool {
	return v == "" || v == "1.x"
}

// evalInvalid: a chart with an invalid name or version (or a valid chart
// packaged with an invalid --version) must not be packaged: the call fails and
// no file is left anywhere below the scratch directory except the input.
func evalInvalid(rd replayData) []found {
	b, ok := buildCase(rd.Devs)
	if !ok {
		return nil
	}
	dir := scratch()
	defer os.RemoveAll(dir)
	// destination two levels down, so that a name like ../x stays inside the scratch directory
	out := filepath.Join(dir, "out", "inner", "dest")
	if err := os.MkdirAll(out, 0o755); err != nil {
		panic(err)
	}
	tuple := fmt.Sprintf("name=%+q,version=%q", rd.Name, rd.Version)
	if rd.Override != "" {
		tuple += fmt.Sprintf(",--version=%q", rd.Override)
	}
	var err error
	var path string
	switch rd.Entry {
	case "save":
		// a loaded, valid chart whose metadata is then made invalid (what Package --version does)
		c0, e := loader.LoadFiles(buffered(b.fileSet()))
		if e != nil {
			return nil
		}
		c0.Metadata.Name, c0.Metadata.Version = rd.Name, rd.Version
		err = guard(func() (e error) { path, e = chartutil.Save(c0, out); return })
	case "package":
		b.name, b.version = rd.Name, rd.Version
		src := filepath.Join(dir, "srcdir")
		if e := writeTree(src, b.fileSet()); e != nil {
			panic(e)
		}
		pkg := action.NewPackage()
		pkg.Destination = out
		pkg.Version = rd.Override
		err = guard(func() (e error) { path, e = pkg.Run(src, nil); return })
	}
	var left []string
	for _, p := range regularFiles(filepath.Join(dir, "out")) {
		left = append(left, strings.TrimPrefix(p, dir+"/"))
	}
	var fs []found
	shape := fmt.Sprintf("name=%s,version=%s", shapeOf(rd.Name), shapeOf(rd.Version))
	if rd.Override != "" {
		shape += ",override=" + shapeOf(rd.Override)
	}
	if err == nil {
		what := fmt.Sprintf("%s of a chart with %s succeeds (returned %q; files written: %q)", rd.Entry, tuple, strings.TrimPrefix(path, dir+"/"), left)
		if esc := escaping(path); len(esc) > 0 {
			what += fmt.Sprintf("; archive entries outside the chart directory: %v", esc)
		}
		fs = append(fs, found{Key: core.SanitizeKey("invalid-packaged/" + rd.Entry + "/" + shape), What: what, Replay: rd})
	} else if len(left) > 0 {
		fs = append(fs, found{Key: core.SanitizeKey("invalid-leaves-archive/" + rd.Entry + "/" + shape),
			What: fmt.Sprintf("%s of a chart with %s fails (%v) but leaves %q behind", rd.Entry, tuple, err, left), Replay: rd})
	}
	return fs
}

func shapeOf(s string) string {
	if s == "" {
		return "empty"
	}
	// non-printable characters as ASCII escapes (plain names come out unchanged)
	return strings.Trim(strconv.QuoteToASCII(s), `"`)
}

// escaping lists the archive entries that leave the chart's own directory.
func escaping(path string) []string {
	entries, err := readTgz(path)
	if err != nil {
		return nil
	}
	var out []string
	for _, e := range entries {
		segs := strings.Split(e.Name, "/")
		bad := strings.HasPrefix(e.Name, "/") || len(segs) < 2 || segs[0] == "." || segs[0] == ""
		for _, sg := range segs {
			bad = bad || sg == ".."
		}
		if bad {
			out = append(out, strconv.QuoteToASCII(e.Name))
		}
	}
	return out
}

// ---------- exploration ----------

func subsets(n, k int, f func(idx []int)) {
	var rec func(start int, cur []int)
	for size := 0; size <= k; size++ {
		size := size
		rec = func(start int, cur []int) {
			if len(cur) == size {
				f(cur)
				return
			}
			for i := start; i < n; i++ {
				rec(i+1, append(cur, i))
			}
		}
		rec(0, nil)
	}
}

func run(c *core.Ctx) {
	defer cleanup()
	k := 2
	if c.Thorough() {
		k = 3
	}
	c.Bound("max_deviations", map[int]string{2: "2", 3: "3 (a two-rule .helmignore counts as two)"}[k])
	c.Bound("deviation_table", fmt.Sprint(len(devTable)))
	c.Bound("helmignore_rule_sets", fmt.Sprintf("%d (all non-empty subsets of size <=2 of %d rules) + none", ruleSetCount(), len(ruleAlphabet)))
	samples := 0

	if c.Only == "" || c.Only == "rt" {
		subsets(len(devTable), k, func(idx []int) {
			ids := make([]string, len(idx))
			for i, j := range idx {
				ids[i] = devTable[j].ID
			}
			b, ok := buildCase(ids)
			if !ok {
				return // two deviations set the same file: not a member of the space
			}
			if len(ids) == 3 && len(b.ignore) == 2 {
				return // thorough: a two-rule .helmignore counts as two of the three deviations
			}
			if !c.NextMine() {
				return
			}
			c.Mark("rt|" + strings.Join(ids, " | "))
			c.Distinct("rt|" + digest(b.fileSet())) // distinct = distinct file sets ({v1, req} and {v1+req} are one chart)
			c.Depth(len(ids))
			res := evalCase(ids)
			c.Eval(int64(len(res.Outcomes)))
			for _, o := range res.Outcomes {
				c.Outcome(o)
			}
			for _, f := range res.Floors {
				c.Floor(f)
			}
			if len(res.Issues) == 0 {
				if samples < 4 && len(ids) == k {
					samples++
					c.Sample(map[string]any{"deviations": ids, "routes": res.Outcomes})
				}
				return
			}
			for _, f := range report(ids, res.Issues) {
				c.Outcome("violation:" + strings.SplitN(f.Key, "/devs=", 2)[0])
				c.Violate(prop, f.Key, f.What, f.Replay)
			}
		})
	}

	if c.Only == "" || c.Only == "fault" {
		runFaults(c)
	}
	if c.Only == "" || c.Only == "history" {
		runHistories(c)
	}

	if c.Only == "" || c.Only == "invalid" {
		names := append([]string{"base", "../x", "a/b", "", ".", ".."}, collapsingNames...)
		collapsing := map[string]bool{}
		for _, n := range collapsingNames {
			collapsing[n] = true
		}
		versions := []string{"0.1.0", "1.x", ""}
		var devsets [][]string
		devsets = append(devsets, nil)
		for _, d := range devTable {
			// one .helmignore set is enough here: rule sets and name/version validation do not meet
			if strings.HasPrefix(d.ID, "ign:") && d.ID != "ign:star-txt" {
				continue
			}
			devsets = append(devsets, []string{d.ID})
		}
		for _, ds := range devsets {
			b, ok := buildCase(ds)
			if !ok {
				continue
			}
			// only deviation sets whose valid form loads: the invalidity must be the only reason to refuse
			if _, err := loader.LoadFiles(buffered(b.fileSet())); err != nil {
				continue
			}
			for _, n := range names {
				for _, v := range versions {
					if collapsing[n] && v != "0.1.0" {
						continue // these names meet the valid version only
					}
					for _, entry := range []string{"save", "package", "package-override"} {
						rd := replayData{Mode: "invalid", Devs: ds, Name: n, Version: v, Entry: entry}
						if entry == "package-override" {
							// a valid chart on disk, packaged with --version <invalid>
							if n != "base" || v == "0.1.0" || v == "" {
								continue
							}
							rd = replayData{Mode: "invalid", Devs: ds, Name: "base", Version: "0.1.0", Override: v, Entry: "package"}
						} else if !isInvalidName(n) && !isInvalidVersion(v) {
							continue
						}
						if !c.NextMine() {
							continue
						}
						canon := fmt.Sprintf("invalid|%v|%+q|%q|%q|%s", ds, rd.Name, rd.Version, rd.Override, rd.Entry)
						c.Mark(canon)
						c.Distinct(canon)
						c.Eval(1)
						fs := evalInvalid(rd)
						if len(fs) > 0 && len(ds) > 0 {
							// report the plain baseline when it shows the same thing
							rb := rd
							rb.Devs = nil
							if fb := evalInvalid(rb); len(fb) > 0 && fb[0].Key == fs[0].Key {
								fs = fb
							}
						}
						if len(fs) == 0 {
							c.Outcome("invalid:refused-clean:" + rd.Entry)
							c.Floor("invalid-rejected:" + rd.Entry)
							if samples < 6 && len(ds) == 0 {
								samples++
								c.Sample(map[string]any{"invalid": rd, "refused": true, "files_left": 0})
							}
						}
						for _, f := range fs {
							c.Outcome("violation:" + strings.SplitN(f.Key, "/", 2)[0])
							c.Violate(prop, f.Key, f.What, f.Replay)
						}
					}
				}
			}
		}
	}
}
