package c15

import (
	"archive/tar"
	"bytes"
	"compress/gzip"
	"encoding/json"
	"fmt"
	"io"
	"os"
	"reflect"
	"sort"
	"strings"

	chart "helm.sh/helm/v4/pkg/chart/v2"
)

// ---------- reference ignore matcher (restricted rule alphabet) ----------
//
// Rule forms handled: literal characters, '\c' (the literal character c), '*'
// (any run of non-'/' characters), '?' (exactly one non-'/' character), an optional leading '/' (anchored at the
// chart root), an optional trailing '/' (directories only), '#...' and blank
// lines (no rule). Semantics as documented in pkg/ignore/doc.go: a pattern
// without '/' is tested against the base name, a pattern with '/' against the
// whole relative path; an ignored directory excludes everything below it.
// The features combine: "/docs/" is anchored AND directory-only (the root
// docs directory and everything below it, not sub/docs), "/sub/*.tmp" and
// "/a?c" are anchored globs. No negation, no character classes.

// glob matches pattern against s; neither '*' nor '?' matches '/'.
func glob(pat, s []rune) bool {
	if len(pat) == 0 {
		return len(s) == 0
	}
	switch pat[0] {
	case '*':
		for i := 0; ; i++ {
			if glob(pat[1:], s[i:]) {
				return true
			}
			if i == len(s) || s[i] == '/' {
				return false
			}
		}
	case '?':
		return len(s) > 0 && s[0] != '/' && glob(pat[1:], s[1:])
	case '\\':
		if len(pat) < 2 {
			return false // a lone trailing backslash is malformed (not generated)
		}
		return len(s) > 0 && s[0] == pat[1] && glob(pat[2:], s[1:])
	}
	return len(s) > 0 && s[0] == pat[0] && glob(pat[1:], s[1:])
}

// ruleMatches: does one rule line match the entry at relative path p?
func ruleMatches(line, p string, isDir bool) bool {
	r := strings.TrimSpace(line)
	if r == "" || strings.HasPrefix(r, "#") {
		return false
	}
	if strings.HasSuffix(r, "/") {
		if !isDir {
			return false
		}
		r = strings.TrimSuffix(r, "/")
	}
	subject := p
	switch {
	case strings.HasPrefix(r, "/"):
		r = strings.TrimPrefix(r, "/")
	case !strings.Contains(r, "/"):
		subject = p[strings.LastIndex(p, "/")+1:]
	}
	return glob([]rune(r), []rune(subject))
}

// defaultRule is the rule LoadDir always adds (ignore.AddDefaults): dot
// entries directly in templates/.
const defaultRule = "templates/.?*"

// refIgnored: is the file at relative path p excluded by the rule lines
// (itself or through one of its directories)? which = the rule that did it.
func refIgnored(rules []string, p string) (bool, string) {
	segs := strings.Split(p, "/")
	all := append(append([]string{}, rules...), defaultRule)
	for i := 1; i <= len(segs); i++ {
		prefix := strings.Join(segs[:i], "/")
		for _, r := range all {
			if ruleMatches(r, prefix, i < len(segs)) {
				return true, r
			}
		}
	}
	return false, ""
}

// ---------- reading an archive independently of Helm ----------

func readTgz(path string) ([]file, error) {
	f, err := os.Open(path)
	if err != nil {
		return nil, err
	}
	defer f.Close()
	zr, err := gzip.NewReader(f)
	if err != nil {
		return nil, err
	}
	tr := tar.NewReader(zr)
	var out []file
	for {
		h, err := tr.Next()
		if err == io.EOF {
			return out, nil
		}
		if err != nil {
			return out, err
		}
		b, err := io.ReadAll(tr)
		if err != nil {
			return out, err
		}
		out = append(out, file{h.Name, b})
	}
}

// ---------- field-by-field chart comparison ----------

// diff is one difference between chart A ("before") and chart B ("after").
type diff struct {
	Kind   string // metadata | values-raw | values-parsed | schema | lock | template | file | dependency
	Path   string // path from the chart root (files) or field name
	Detail string // differs | missing-after | extra-after | duplicated
	A, B   []byte // the two contents where that applies
}

func (d diff) String() string {
	switch d.Detail {
	case "differs":
		return fmt.Sprintf("%s %s differs: before %s, after %s", d.Kind, d.Path, excerpt(d.A), excerpt(d.B))
	case "missing-after":
		return fmt.Sprintf("%s %s is missing afterwards (was %s)", d.Kind, d.Path, excerpt(d.A))
	case "extra-after":
		return fmt.Sprintf("%s %s appears only afterwards (%s)", d.Kind, d.Path, excerpt(d.B))
	}
	return fmt.Sprintf("%s %s %s", d.Kind, d.Path, d.Detail)
}

func excerpt(b []byte) string {
	if b == nil {
		return "<absent>"
	}
	if len(b) > 48 {
		return fmt.Sprintf("%q…(%d bytes)", b[:48], len(b))
	}
	return fmt.Sprintf("%q", b)
}

// normJSON: JSON of v with "empty" spelled one way (nil, [] and {} are the same
// value for an optional field).
func normJSON(v any) []byte {
	b, err := json.Marshal(v)
	if err != nil {
		return []byte("unmarshalable: " + err.Error())
	}
	switch string(b) {
	case "null", "[]", "{}", `""`:
		return nil
	}
	return b
}

func compareMetadata(pre string, a, b *chart.Metadata, out *[]diff) {
	if a == nil || b == nil {
		if a != b {
			*out = append(*out, diff{Kind: "metadata", Path: pre + "metadata", Detail: "differs", A: normJSON(a), B: normJSON(b)})
		}
		return
	}
	va, vb := reflect.ValueOf(*a), reflect.ValueOf(*b)
	for i := 0; i < va.NumField(); i++ {
		ja, jb := normJSON(va.Field(i).Interface()), normJSON(vb.Field(i).Interface())
		if !bytes.Equal(ja, jb) {
			*out = append(*out, diff{Kind: "metadata", Path: pre + "metadata." + va.Type().Field(i).Name, Detail: "differs", A: orEmpty(ja), B: orEmpty(jb)})
		}
	}
}

func orEmpty(b []byte) []byte {
	if b == nil {
		return []byte("<empty>")
	}
	return b
}

func compareLock(pre string, a, b *chart.Lock, out *[]diff) {
	switch {
	case a == nil && b == nil:
		return
	case a == nil:
		*out = append(*out, diff{Kind: "lock", Path: pre + "Chart.lock", Detail: "extra-after", B: normJSON(b)})
		return
	case b == nil:
		*out = append(*out, diff{Kind: "lock", Path: pre + "Chart.lock", Detail: "missing-after", A: normJSON(a)})
		return
	}
	if !a.Generated.Equal(b.Generated) {
		*out = append(*out, diff{Kind: "lock", Path: pre + "Chart.lock:generated", Detail: "differs", A: []byte(a.Generated.String()), B: []byte(b.Generated.String())})
	}
	if a.Digest != b.Digest {
		*out = append(*out, diff{Kind: "lock", Path: pre + "Chart.lock:digest", Detail: "differs", A: []byte(a.Digest), B: []byte(b.Digest)})
	}
	if ja, jb := normJSON(a.Dependencies), normJSON(b.Dependencies); !bytes.Equal(ja, jb) {
		*out = append(*out, diff{Kind: "lock", Path: pre + "Chart.lock:dependencies", Detail: "differs", A: orEmpty(ja), B: orEmpty(jb)})
	}
}

func compareFiles(kind, pre string, a, b []*chart.File, out *[]diff) {
	index := func(fs []*chart.File) (map[string][]byte, map[string]int) {
		m, n := map[string][]byte{}, map[string]int{}
		for _, f := range fs {
			if f == nil {
				continue
			}
			if _, dup := m[f.Name]; !dup {
				m[f.Name] = f.Data
			}
			n[f.Name]++
		}
		return m, n
	}
	ma, na := index(a)
	mb, nb := index(b)
	names := map[string]bool{}
	for n := range ma {
		names[n] = true
	}
	for n := range mb {
		names[n] = true
	}
	var sorted []string
	for n := range names {
		sorted = append(sorted, n)
	}
	sort.Strings(sorted)
	for _, n := range sorted {
		da, ina := ma[n]
		db, inb := mb[n]
		switch {
		case !inb:
			*out = append(*out, diff{Kind: kind, Path: pre + n, Detail: "missing-after", A: nz(da)})
		case !ina:
			*out = append(*out, diff{Kind: kind, Path: pre + n, Detail: "extra-after", B: nz(db)})
		case !bytes.Equal(da, db):
			*out = append(*out, diff{Kind: kind, Path: pre + n, Detail: "differs", A: nz(da), B: nz(db)})
		case na[n] != nb[n]:
			*out = append(*out, diff{Kind: kind, Path: pre + n, Detail: "duplicated"})
		}
	}
}

func nz(b []byte) []byte {
	if b == nil {
		return []byte{}
	}
	return b
}

func rawValues(c *chart.Chart) []*chart.File {
	var out []*chart.File
	for _, f := range c.Raw {
		if f != nil && f.Name == "values.yaml" {
			out = append(out, f)
		}
	}
	return out
}

// compareCharts lists every difference between a and b that the property's
// statement names: metadata, raw and parsed values, schema, lock, templates,
// files, and the dependency tree by chart name, recursively.
func compareCharts(pre string, a, b *chart.Chart, out *[]diff) {
	compareMetadata(pre, a.Metadata, b.Metadata, out)
	compareFiles("values-raw", pre, rawValues(a), rawValues(b), out)
	if (len(a.Values) != 0 || len(b.Values) != 0) && !reflect.DeepEqual(a.Values, b.Values) {
		*out = append(*out, diff{Kind: "values-parsed", Path: pre + "values", Detail: "differs", A: orEmpty(normJSON(a.Values)), B: orEmpty(normJSON(b.Values))})
	}
	switch {
	case a.Schema == nil && b.Schema == nil:
	case b.Schema == nil:
		*out = append(*out, diff{Kind: "schema", Path: pre + "values.schema.json", Detail: "missing-after", A: a.Schema})
	case a.Schema == nil:
		*out = append(*out, diff{Kind: "schema", Path: pre + "values.schema.json", Detail: "extra-after", B: b.Schema})
	case !bytes.Equal(a.Schema, b.Schema):
		*out = append(*out, diff{Kind: "schema", Path: pre + "values.schema.json", Detail: "differs", A: a.Schema, B: b.Schema})
	}
	compareLock(pre, a.Lock, b.Lock, out)
	compareFiles("template", pre, a.Templates, b.Templates, out)
	compareFiles("file", pre, a.Files, b.Files, out)

	da, db := map[string]*chart.Chart{}, map[string]*chart.Chart{}
	var names []string
	for _, d := range a.Dependencies() {
		if _, dup := da[d.Name()]; dup {
			*out = append(*out, diff{Kind: "dependency", Path: pre + "charts/" + d.Name(), Detail: "duplicated"})
		}
		da[d.Name()] = d
		names = append(names, d.Name())
	}
	for _, d := range b.Dependencies() {
		if _, dup := db[d.Name()]; dup {
			*out = append(*out, diff{Kind: "dependency", Path: pre + "charts/" + d.Name(), Detail: "duplicated"})
		}
		db[d.Name()] = d
		if _, ok := da[d.Name()]; !ok {
			names = append(names, d.Name())
		}
	}
	sort.Strings(names)
	for _, n := range names {
		switch {
		case db[n] == nil:
			*out = append(*out, diff{Kind: "dependency", Path: pre + "charts/" + n, Detail: "missing-after"})
		case da[n] == nil:
			*out = append(*out, diff{Kind: "dependency", Path: pre + "charts/" + n, Detail: "extra-after"})
		default:
			compareCharts(pre+"charts/"+n+"/", da[n], db[n], out)
		}
	}
}

// depDepth is the height of the dependency tree (0 = no dependencies).
func depDepth(c *chart.Chart) int {
	d := 0
	for _, s := range c.Dependencies() {
		if x := 1 + depDepth(s); x > d {
			d = x
		}
	}
	return d
}
