package c15

import "testing"

// The reference matcher against expectations written by hand from the
// documented .helmignore semantics (pkg/ignore/doc.go) - no Helm code involved.
func TestReferenceMatcher(t *testing.T) {
	type tc struct {
		rule, path string
		want       bool
	}
	for _, c := range []tc{
		{"/docs/", "docs/a.md", true}, {"/docs/", "docs/deep/b.md", true}, {"/docs/", "sub/docs/c.md", false}, {"/docs/", "other/docs", false},
		{"docs/", "sub/docs/c.md", true}, {"docs/", "other/docs", false}, {"docs/", "docs/a.md", true},
		{"/sub/*.tmp", "sub/x.tmp", true}, {"/sub/*.tmp", "sub/deep/y.tmp", false}, {"/sub/*.tmp", "other/sub/z.tmp", false}, {"/sub/*.tmp", "x.tmp", false},
		{"/a?c", "abc", true}, {"/a?c", "aéc", true}, {"/a?c", "adc/inner.md", true}, {"/a?c", "sub/abc", false}, {"/a?c", "templates/a-c", false}, {"/a?c", "ac", false}, {"/a?c", "abbc", false},
		{"a?c", "sub/abc", true}, {"a?c", "templates/a-c", true},
		{"/README.md", "README.md", true}, {"/README.md", "sub/README.md", false},
		{"*.txt", "sub/notes.txt", true}, {"*.txt", "notes.txt.bak", false},
		{`\.env`, ".env", true}, {`\.env`, "conf/.env", true}, {`\.env`, "secret.key", false},
		{`secret\.key`, "secret.key", true}, {`secret\.key`, "secretXkey", false},
		{`/private\.pem`, "private.pem", true}, {`/private\.pem`, "conf/private.pem", false},
		{`conf/local\.yaml`, "conf/local.yaml", true}, {`conf/local\.yaml`, "other/conf/local.yaml", false},
		{`\#scratch#`, "#scratch#", true}, {`\#scratch#`, "scratch#", false}, {"#scratch#", "#scratch#", false},
		{"# comment", "abc", false}, {"", "abc", false},
		{"", "templates/.hidden", true}, {"", "templates/sub/.hidden2", false},
	} {
		if got, _ := refIgnored([]string{c.rule}, c.path); got != c.want {
			t.Errorf("rule %q path %q: reference says ignored=%v, documented semantics say %v", c.rule, c.path, got, c.want)
		}
	}
}
