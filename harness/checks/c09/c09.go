// Package c09: concurrent installs/upgrades of one release cannot both
// proceed. All interleavings of 2 (preemption-bounded: 3) whole operations at
// the granularity of individual storage and cluster calls, on the real
// actions over the memory, Secret and ConfigMap backends.
package c09

import (
	"encoding/json"
	"fmt"
	"strings"
	"time"

	rspb "helm.sh/helm/v4/pkg/release/v1"

	"verif/harness/internal/core"
	"verif/harness/internal/gate"
	"verif/harness/internal/hx"
	"verif/harness/internal/sim"
)

const prop = "C09"

func init() {
	core.Register(&core.Check{
		ID:    prop,
		Level: "model_checking",
		Rule: "per scenario (install||install, upgrade||upgrade, install||upgrade, upgrade||upgrade with history limit, install --replace||upgrade, three upgrades) and backend: " +
			"stateless DFS over all schedules of the operations' storage and cluster calls (one scheduling point per call), pruned by global state key " +
			"(canonical world + per-thread observation hash), unbounded for 2 threads, preemption-bounded for 3; oracle at quiescence on every complete execution. " +
			"distinct = distinct global states; a state is non-trivial when at least two threads are still live",
		Run:    run,
		Replay: replay,
		Shards: func(string) int { return 16 },
		Assumptions: []string{
			"one atomic step = one storage or cluster call, the granularity the quantifier names; readiness waits are thread-local and not scheduling points",
			"charts have one resource per kind, so each logical thread has exactly one runnable goroutine at any time",
			"threads are deterministic functions of what they observed (timestamps are projected out of the observation hash), which is what makes state-key pruning sound",
			"data-race freedom of a storage backend is not decidable by a cooperative scheduler: it is looked at by a separate free-running -race pass (supporting evidence, sampling of schedules)",
		},
		RequiredFloors: []string{"loser:exists", "loser:pending", "both-proceed-sequentially", "three-threads", "lock-level", "read-during-pending-rollback"},
	})
}

var (
	chartA = &hx.ChartSpec{Name: "c", Version: "1", Resources: []hx.ResSpec{{Kind: "ConfigMap", Name: "a", Variant: 1}, {Kind: "Service", Name: "s", Variant: 1}}}
	chartB = &hx.ChartSpec{Name: "c", Version: "2", Resources: []hx.ResSpec{{Kind: "ConfigMap", Name: "a", Variant: 2}, {Kind: "Service", Name: "s", Variant: 2}}}
	chartC = &hx.ChartSpec{Name: "c", Version: "3", Resources: []hx.ResSpec{{Kind: "ConfigMap", Name: "a", Variant: 3}, {Kind: "Service", Name: "s", Variant: 3}}}
)

func scenarios(thorough bool) []*gate.Scenario {
	var out []*gate.Scenario
	for _, drv := range hx.Drivers {
		b3 := 1
		if thorough {
			b3 = 2
		}
		out = append(out,
			&gate.Scenario{Name: "install||install", Driver: drv, Ops: []hx.Op{{Kind: "install", Chart: chartA}, {Kind: "install", Chart: chartB}}, Bound: -1},
			&gate.Scenario{Name: "upgrade||upgrade", Driver: drv, Setup: []hx.Op{{Kind: "install", Chart: chartA}}, Ops: []hx.Op{{Kind: "upgrade", Chart: chartB}, {Kind: "upgrade", Chart: chartC}}, Bound: -1},
			&gate.Scenario{Name: "install||upgrade", Driver: drv, Ops: []hx.Op{{Kind: "install", Chart: chartA}, {Kind: "upgrade", Chart: chartB}}, Bound: -1},
			&gate.Scenario{Name: "upgrade||upgrade(max-history=2)", Driver: drv, Setup: []hx.Op{{Kind: "install", Chart: chartA}, {Kind: "upgrade", Chart: chartB}},
				Ops: []hx.Op{{Kind: "upgrade", Chart: chartC, MaxHistory: 2}, {Kind: "upgrade", Chart: chartA, MaxHistory: 2}}, Bound: -1},
			&gate.Scenario{Name: "install--replace||upgrade", Driver: drv, Setup: []hx.Op{{Kind: "install", Chart: chartA}, {Kind: "uninstall", KeepHistory: true}},
				Ops: []hx.Op{{Kind: "install", Chart: chartB, Replace: true}, {Kind: "upgrade", Chart: chartC}}, Bound: -1},
			&gate.Scenario{Name: "upgrade||upgrade||upgrade", Driver: drv, Setup: []hx.Op{{Kind: "install", Chart: chartA}},
				Ops: []hx.Op{{Kind: "upgrade", Chart: chartB}, {Kind: "upgrade", Chart: chartC}, {Kind: "upgrade", Chart: chartA}}, Bound: b3},
		)
		// a failing atomic upgrade (its PATCH of ConfigMap a is rejected, so Helm rolls back on its own and the history
		// passes through pending-rollback) against a plain upgrade
		out = append(out, &gate.Scenario{Name: "upgrade-atomic-failing||upgrade", Driver: drv, Setup: []hx.Op{{Kind: "install", Chart: chartA}},
			Ops:   []hx.Op{{Kind: "upgrade", Chart: chartB, Atomic: true}, {Kind: "upgrade", Chart: chartC}},
			Fault: &sim.Fault{Label: "PATCH configmaps/a", Occurrence: 0, Kind: "reject", OnThread: 1}, Bound: 2})
		if drv != "memory" {
			// the create of the first upgrade's revision record times out at the server without being persisted
			out = append(out, &gate.Scenario{Name: "upgrade(create-times-out)||upgrade", Driver: drv, Setup: []hx.Op{{Kind: "install", Chart: chartA}},
				Ops:   []hx.Op{{Kind: "upgrade", Chart: chartB}, {Kind: "upgrade", Chart: chartC}},
				Fault: &sim.Fault{Label: "POST " + drv + "/sh.helm.release.v1.r.v2", Occurrence: 0, Kind: "timeout", OnThread: 1}, Bound: -1})
		}
		if thorough {
			out = append(out,
				// (upgrade||rollback is deliberately absent: the statement quantifies over install and upgrade operations only;
				// rollback does not take the pending check and can race an upgrade into two deployed revisions — observed, outside C09)
				&gate.Scenario{Name: "upgrade-atomic||upgrade", Driver: drv, Setup: []hx.Op{{Kind: "install", Chart: chartA}},
					Ops: []hx.Op{{Kind: "upgrade", Chart: chartB, Atomic: true}, {Kind: "upgrade", Chart: chartC}}, Bound: -1},
			)
		}
	}
	return out
}

// set by lock_vsched.go in the instrumented build
var (
	lockRun    func(c *core.Ctx)
	lockReplay func(c *core.Ctx, data json.RawMessage) []core.Violation
)

type replayData struct {
	Scenario *gate.Scenario `json:"scenario"`
	Choices  []int          `json:"choices"`
	Key      string         `json:"key"`
}

func replay(c *core.Ctx, data json.RawMessage) []core.Violation {
	var rd replayData
	if err := json.Unmarshal(data, &rd); err != nil {
		return nil
	}
	if rd.Scenario == nil {
		if lockReplay != nil {
			return lockReplay(c, data)
		}
		return nil
	}
	ex, err := gate.Replay(rd.Scenario, rd.Choices)
	if err != nil {
		fmt.Println("replay error:", err)
		return nil
	}
	oracle(c, ex)
	return core.FilterKey(c.TakeViolations(), rd.Key)
}

func run(c *core.Ctx) {
	defer func() {
		if lockRun != nil {
			lockRun(c)
		} else {
			c.NotExhaustive("lock-level part needs the vsched-instrumented build (run through ./run.sh)")
		}
	}()
	deadline := time.Now().Add(10 * time.Minute)
	if c.Thorough() {
		deadline = time.Now().Add(100 * time.Minute)
	}
	for _, sc := range scenarios(c.Thorough()) {
		if !c.NextMine() {
			continue
		}
		// determinism self-test: the default schedule replayed twice must give identical traces and final states
		if a, errA := gate.Replay(sc, nil); errA == nil {
			if b, errB := gate.Replay(sc, a.Choices); errB != nil || fmt.Sprint(a.Trace) != fmt.Sprint(b.Trace) || a.World.Canon() != b.World.Canon() {
				c.NotExhaustive("scenario %s/%s is not deterministic under replay (harness problem): %v", sc.Name, sc.Driver, errB)
				continue
			}
			c.Count("replay_determinism_selftests", 1)
		}
		salt := core.Hash64(sc.Name + "|" + sc.Driver)
		st, err := gate.Explore(sc, func(ex *gate.Exec) { oracle(c, ex) }, func(k uint64, live int) {
			c.StateHash(k ^ salt)
			if live >= 2 {
				c.DistinctHash(k ^ salt)
			}
		}, deadline)
		c.Eval(int64(st.Executions))
		c.Transition(int64(st.Steps))
		c.Count("complete_executions", int64(st.Complete))
		c.Count("states:"+sc.Name+":"+sc.Driver, int64(st.States))
		c.Depth(st.MaxSteps)
		c.Bound("preemption_bound:"+sc.Name, fmt.Sprint(sc.Bound))
		if len(sc.Ops) == 3 {
			c.Floor("three-threads")
		}
		if err != nil {
			c.NotExhaustive("scenario %s/%s: %v (states so far %d)", sc.Name, sc.Driver, err, st.States)
		}
	}
}

func acceptableLoserError(e string) bool {
	for _, s := range []string{"already exists", "another operation (install/upgrade/rollback) is in progress", "has no deployed releases", "cannot reuse a name"} {
		if strings.Contains(e, s) {
			return true
		}
	}
	return false
}

func oracle(c *core.Ctx, ex *gate.Exec) {
	sc := ex.Scenario
	violate := func(inv, what string) {
		key := core.SanitizeKey(fmt.Sprintf("%s|%s|%s", inv, sc.Name, sc.Driver))
		var tr []string
		for _, s := range ex.Trace {
			tr = append(tr, fmt.Sprintf("T%d:%s", s.Thread, s.Label))
		}
		c.Violate(prop, key, fmt.Sprintf("%s: %s [scenario=%s driver=%s final=(%s) schedule=%s]", inv, what, sc.Name, sc.Driver, hx.StatusVector(ex.World.History("r")), strings.Join(tr, " ")),
			replayData{Scenario: sc, Choices: ex.Choices, Key: key})
	}
	if sc.Fault != nil && strings.HasPrefix(sc.Name, "upgrade-atomic-failing") {
		// A failing atomic upgrade rolls back on its own, and a rollback racing an upgrade is outside the statement
		// (see the note in scenarios()). What the statement does require is judged here alone: while the automatic
		// rollback's revision is pending (from its record creation by thread 0 to thread 0's last record update), an
		// upgrade that reads the history must fail with operation-in-progress and create nothing.
		isCreate := func(l string) bool {
			return strings.HasPrefix(l, "store:Create ") || (strings.HasPrefix(l, "POST ") && strings.Contains(l, "sh.helm.release.v1."))
		}
		isUpdate := func(l string) bool {
			return strings.HasPrefix(l, "store:Update ") || (strings.HasPrefix(l, "PUT ") && strings.Contains(l, "sh.helm.release.v1."))
		}
		isRead := func(l string) bool {
			return strings.HasPrefix(l, "store:Query") || strings.HasPrefix(l, "store:List") || l == "GET secrets" || l == "GET configmaps"
		}
		creates0, rollbackCreate, lastUpdate0, firstRead1 := 0, -1, -1, -1
		for i, st := range ex.Trace {
			switch {
			case st.Thread == 0 && isCreate(st.Label):
				creates0++
				if creates0 == 2 {
					rollbackCreate = i
				}
			case st.Thread == 0 && isUpdate(st.Label):
				lastUpdate0 = i
			case st.Thread == 1 && isRead(st.Label) && firstRead1 < 0:
				firstRead1 = i
			}
		}
		created1 := false
		for _, e := range ex.Logs[1] {
			if e.Applied && ((e.Class == "record-write" && e.Verb == "POST") || (e.Class == "store-write" && strings.HasPrefix(e.Label, "store:Create "))) {
				created1 = true
			}
		}
		if rollbackCreate >= 0 && firstRead1 > rollbackCreate && firstRead1 < lastUpdate0 {
			c.Floor("read-during-pending-rollback")
			if created1 || !ex.Results[1].Failed {
				violate("R6-in-progress", fmt.Sprintf("thread 1 (%s) read the history while thread 0's automatic rollback revision was pending (steps %d < %d < %d) and went ahead (created a revision: %v, error: %q)", sc.Ops[1].Short(), rollbackCreate, firstRead1, lastUpdate0, created1, ex.Results[1].Err))
			} else if !strings.Contains(ex.Results[1].Err, "in progress") {
				violate("R6-in-progress", fmt.Sprintf("thread 1 (%s) read the history while thread 0's automatic rollback revision was pending and failed with %q instead of operation-in-progress", sc.Ops[1].Short(), ex.Results[1].Err))
			}
		}
		return
	}
	// who created which revision
	creators := map[string][]int{}
	createdBy := make([]int, len(sc.Ops))
	for t, log := range ex.Logs {
		for _, e := range log {
			if !e.Applied {
				continue
			}
			if (e.Class == "record-write" && e.Verb == "POST") || (e.Class == "store-write" && strings.HasPrefix(e.Label, "store:Create ")) {
				rev := e.Label[strings.LastIndex(e.Label, ".v")+2:]
				creators[rev] = append(creators[rev], t)
				createdBy[t]++
			}
		}
	}
	for rev, ts := range creators {
		if len(ts) > 1 {
			violate("R1-one-creator", fmt.Sprintf("revision %s was created by threads %v", rev, ts))
		}
	}
	proceeded := 0
	for t, res := range ex.Results {
		if createdBy[t] > 0 {
			proceeded++
			continue
		}
		if !res.Failed {
			violate("R2-loser-error", fmt.Sprintf("thread %d (%s) created no revision but reported success", t, sc.Ops[t].Short()))
			continue
		}
		if sc.Fault != nil && sc.Fault.OnThread == t+1 && strings.Contains(res.Err, "injected") {
			// the operation the fault was aimed at failed with that fault: it created nothing and must have changed nothing,
			// which the clauses below check like for any other loser
			c.Floor("faulted-operation-failed-with-its-fault")
		} else if !acceptableLoserError(res.Err) {
			violate("R2-loser-error", fmt.Sprintf("thread %d (%s) created no revision and failed with %q", t, sc.Ops[t].Short(), res.Err))
		}
		switch {
		case strings.Contains(res.Err, "already exists"):
			c.Floor("loser:exists")
		case strings.Contains(res.Err, "in progress"):
			c.Floor("loser:pending")
		}
		for _, e := range ex.Logs[t] {
			if e.Class == "cluster" && e.Mutating() {
				violate("R3-loser-inert", fmt.Sprintf("thread %d (%s) lost but sent %s", t, sc.Ops[t].Short(), e.Label))
				break
			}
			// a loser owns no revision: it must not rewrite the record of a revision that a concurrent operation created
			// (superseding a pre-existing revision before its own create, as install --replace does, is not covered by the statement)
			if e.Applied && ((e.Class == "record-write" && e.Verb == "PUT") || (e.Class == "store-write" && strings.HasPrefix(e.Label, "store:Update "))) {
				rev := e.Label[strings.LastIndex(e.Label, ".v")+2:]
				if owners := creators[rev]; len(owners) > 0 && owners[0] != t {
					violate("R3-loser-record-update", fmt.Sprintf("thread %d (%s) created no revision but updated the record of revision %s created by thread %d: %s", t, sc.Ops[t].Short(), rev, owners[0], e.Label))
					break
				}
			}
		}
		c.Outcome(sc.Ops[t].Kind + ":loser:" + res.ErrClass())
	}
	if proceeded == len(sc.Ops) && len(sc.Ops) == 2 {
		c.Floor("both-proceed-sequentially")
	}
	c.Outcome(fmt.Sprintf("proceeded=%d/%d", proceeded, len(sc.Ops)))
	// final ledger
	h := ex.World.History("r")
	dep := 0
	seen := map[int]bool{}
	for _, r := range h {
		if r.Info.Status == rspb.StatusDeployed {
			dep++
		}
		if seen[r.Version] {
			violate("R4-ledger", fmt.Sprintf("revision %d stored twice", r.Version))
		}
		seen[r.Version] = true
	}
	if dep > 1 {
		violate("R4-ledger", fmt.Sprintf("%d revisions are deployed at quiescence", dep))
	}
	// a thread that reported success owns a revision that is deployed, or superseded by a later success
	for t, res := range ex.Results {
		if res.Failed || createdBy[t] == 0 {
			continue
		}
		for rev, ts := range creators {
			if len(ts) != 1 || ts[0] != t {
				continue
			}
			var n int
			fmt.Sscan(rev, &n)
			for _, r := range h {
				if r.Version == n && r.Info.Status != rspb.StatusDeployed && r.Info.Status != rspb.StatusSuperseded {
					violate("R5-winner-status", fmt.Sprintf("thread %d (%s) reported success but its revision %d is %s at quiescence", t, sc.Ops[t].Short(), n, r.Info.Status))
				}
			}
		}
	}
	if len(ex.Trace) > 0 {
		c.Sample(map[string]any{"scenario": sc.Name, "driver": sc.Driver, "steps": len(ex.Trace), "final_ledger": hx.StatusVector(h), "errors": errs(ex.Results)})
	}
	_ = sim.RecordPrefix
}

func errs(rs []hx.Result) []string {
	var out []string
	for _, r := range rs {
		e := r.Err
		if len(e) > 80 {
			e = e[:80]
		}
		out = append(out, e)
	}
	return out
}
