//go:build vsched

package c09

import (
	"encoding/json"
	"errors"
	"fmt"
	"sort"
	"strings"

	"github.com/anishathalye/porcupine"

	rspb "helm.sh/helm/v4/pkg/release/v1"
	"helm.sh/helm/v4/pkg/storage/driver"
	"helm.sh/helm/v4/pkg/vsched"

	"verif/harness/internal/core"
)

// Lock-level part: 2-3 goroutines, 1-2 calls each, on the real driver.Memory
// (instrumented: its RWMutex is the vsync one), every interleaving at lock
// operations; the call/return history of every execution is checked for
// linearizability against a plain map with porcupine.

func init() {
	lockRun = runLock
	lockReplay = replayLock
}

type memOp struct {
	Kind string `json:"kind"` // create | update | delete | get | query
	Key  int    `json:"key"`  // 0: (a,1)  1: (a,2)
	St   string `json:"st"`   // payload status
}

func (o memOp) String() string { return fmt.Sprintf("%s(k%d,%s)", o.Kind, o.Key, o.St) }

var memAlphabet = []memOp{
	{"create", 0, "deployed"}, {"create", 0, "failed"}, {"create", 1, "deployed"},
	{"update", 0, "superseded"}, {"delete", 0, ""}, {"get", 0, ""}, {"query", 0, ""},
}

func memKey(k int) (string, string, int) {
	if k == 0 {
		return "sh.helm.release.v1.a.v1", "a", 1
	}
	return "sh.helm.release.v1.a.v2", "a", 2
}

func mkRel(k int, st string) *rspb.Release {
	_, name, v := memKey(k)
	return &rspb.Release{Name: name, Namespace: "default", Version: v, Info: &rspb.Info{Status: rspb.Status(st)}}
}

// output of a call, comparable
type memOut struct {
	Err  string
	Rels string
}

func doMem(d *driver.Memory, o memOp) memOut {
	key, _, _ := memKey(o.Key)
	switch o.Kind {
	case "create":
		err := d.Create(key, mkRel(o.Key, o.St))
		if errors.Is(err, driver.ErrReleaseExists) {
			return memOut{Err: "exists"}
		}
		return memOut{Err: errStr(err)}
	case "update":
		return memOut{Err: errStr(d.Update(key, mkRel(o.Key, o.St)))}
	case "delete":
		r, err := d.Delete(key)
		return memOut{Err: errStr(err), Rels: relStr(r)}
	case "get":
		r, err := d.Get(key)
		return memOut{Err: errStr(err), Rels: relStr(r)}
	case "query":
		rs, err := d.Query(map[string]string{"name": "a", "owner": "helm"})
		if errors.Is(err, driver.ErrReleaseNotFound) {
			return memOut{}
		}
		var ss []string
		for _, r := range rs {
			ss = append(ss, relStr(r))
		}
		sort.Strings(ss)
		return memOut{Err: errStr(err), Rels: strings.Join(ss, ",")}
	}
	panic(o.Kind)
}

func errStr(err error) string {
	if err == nil {
		return ""
	}
	return "fail"
}

func relStr(r *rspb.Release) string {
	if r == nil {
		return ""
	}
	return fmt.Sprintf("%s.v%d:%s", r.Name, r.Version, r.Info.Status)
}

// sequential specification: map key index -> status
type memState [2]string

var memModel = porcupine.Model{
	Init: func() interface{} { return memState{} },
	Step: func(state, input, output interface{}) (bool, interface{}) {
		s := state.(memState)
		o := input.(memOp)
		got := output.(memOut)
		var want memOut
		_, name, v := memKey(o.Key)
		cur := s[o.Key]
		switch o.Kind {
		case "create":
			if cur != "" {
				want.Err = "exists"
			} else {
				s[o.Key] = o.St
			}
		case "update":
			if cur == "" {
				want.Err = "fail"
			} else {
				s[o.Key] = o.St
			}
		case "delete":
			if cur == "" {
				want.Err = "fail"
			} else {
				want.Rels = fmt.Sprintf("%s.v%d:%s", name, v, cur)
				s[o.Key] = ""
			}
		case "get":
			if cur == "" {
				want.Err = "fail"
			} else {
				want.Rels = fmt.Sprintf("%s.v%d:%s", name, v, cur)
			}
		case "query":
			var ss []string
			for k, st := range s {
				if st != "" {
					_, n, vv := memKey(k)
					ss = append(ss, fmt.Sprintf("%s.v%d:%s", n, vv, st))
				}
			}
			sort.Strings(ss)
			want.Rels = strings.Join(ss, ",")
		}
		return got == want, s
	},
	Equal: func(a, b interface{}) bool { return a.(memState) == b.(memState) },
}

type lockProgram struct {
	Threads [][]memOp `json:"threads"`
	Bound   int       `json:"bound"`
}

type lockReplayData struct {
	Program lockProgram `json:"program"`
	Choices []int       `json:"choices"`
	Key     string      `json:"key"`
}

func lockSystem(p lockProgram) (func(), *[]porcupine.Operation) {
	d := driver.NewMemory()
	var hist []porcupine.Operation
	clock := int64(0)
	body := func() {
		for ti, ops := range p.Threads {
			ti, ops := ti, ops
			vsched.Go(func() {
				for _, o := range ops {
					clock++
					call := clock
					out := doMem(d, o)
					clock++
					hist = append(hist, porcupine.Operation{ClientId: ti, Input: o, Call: call, Output: out, Return: clock})
				}
			})
		}
	}
	return body, &hist
}

func judgeLock(hist []porcupine.Operation, ex *vsched.Execution) (string, string) {
	if ex.Deadlock {
		return "deadlock", "no thread is enabled while some have not finished"
	}
	for _, l := range ex.Trace {
		if strings.Contains(l, "PANIC") {
			return "panic", l
		}
	}
	if !porcupine.CheckOperations(memModel, hist) {
		var hs []string
		for _, o := range hist {
			hs = append(hs, fmt.Sprintf("T%d %v [%d,%d] -> %+v", o.ClientId, o.Input, o.Call, o.Return, o.Output))
		}
		return "not-linearizable", strings.Join(hs, "; ")
	}
	return "", ""
}

func lockPrograms(thorough bool) []lockProgram {
	var out []lockProgram
	var seqs [][]memOp
	for _, a := range memAlphabet {
		seqs = append(seqs, []memOp{a})
	}
	for _, a := range memAlphabet {
		for _, b := range memAlphabet {
			seqs = append(seqs, []memOp{a, b})
		}
	}
	for i, a := range seqs {
		for _, b := range seqs[i:] {
			out = append(out, lockProgram{Threads: [][]memOp{a, b}, Bound: -1})
		}
	}
	if thorough {
		for _, a := range memAlphabet {
			for _, b := range memAlphabet {
				for _, c := range memAlphabet {
					out = append(out, lockProgram{Threads: [][]memOp{{a}, {b}, {c}}, Bound: -1})
				}
			}
		}
	}
	return out
}

func runLock(c *core.Ctx) {
	progs := lockPrograms(c.Thorough())
	c.Bound("lock_level_programs", fmt.Sprint(len(progs)))
	for _, p := range progs {
		if !c.NextMine() {
			continue
		}
		p := p
		var hist *[]porcupine.Operation
		stop := false
		st, err := vsched.Explore(func() (func(), func(*vsched.Execution)) {
			var body func()
			body, hist = lockSystem(p)
			return body, func(ex *vsched.Execution) {
				c.Count("lock_level_executions", 1)
				c.Transition(int64(len(ex.Choices)))
				inv, what := judgeLock(*hist, ex)
				if inv == "" {
					c.Outcome("lock-level:linearizable")
					return
				}
				c.Outcome("lock-level:" + inv)
				if stop {
					return
				}
				stop = true
				key := core.SanitizeKey("lock-level|" + inv)
				c.Violate(prop, key, fmt.Sprintf("driver.Memory %s: %s [program=%v schedule=%v]", inv, what, p.Threads, ex.Trace), lockReplayData{Program: p, Choices: ex.Choices, Key: key})
			}
		}, p.Bound, 200000, &stop)
		c.Eval(int64(st.Executions))
		if err != nil {
			c.NotExhaustive("lock-level program %v: %v", p.Threads, err)
		}
		if st.Executions > 1 {
			c.Floor("lock-level")
		}
	}
	c.Sample(map[string]any{"part": "lock-level", "programs": len(progs), "example": progs[len(progs)/2]})
}

func replayLock(c *core.Ctx, data json.RawMessage) []core.Violation {
	var rd lockReplayData
	if err := json.Unmarshal(data, &rd); err != nil || len(rd.Program.Threads) == 0 {
		return nil
	}
	body, hist := lockSystem(rd.Program)
	ex, err := vsched.RunOnce(body, rd.Choices)
	if err != nil {
		fmt.Println("replay error:", err)
		return nil
	}
	inv, what := judgeLock(*hist, ex)
	if inv == "" {
		return nil
	}
	key := core.SanitizeKey("lock-level|" + inv)
	return core.FilterKey([]core.Violation{{Property: prop, Key: key, What: what, Replay: data}}, rd.Key)
}
