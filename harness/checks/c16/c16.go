// Package c16: file-writing operations never escape their directory or exceed
// size limits. Bounded-exhaustive enumeration of raw tar/gzip streams, URL
// paths, destination layouts and lock-file plantings, run through the real
// loader, Expand, plugin extractor, ChartDownloader, Pull and dependency
// Manager inside a scratch tree whose before/after snapshots are compared.
package c16

import (
	"encoding/json"
	"fmt"
	"strings"
	"time"

	"verif/harness/internal/core"
)

const prop = "C16"

func init() {
	core.Register(&core.Check{
		ID:    prop,
		Level: "exploration",
		Rule: "every stream is written by a raw USTAR encoder from a list of entries (name from the segment grammar {a .. . '' c: a\\b \\}^<=3 x joiners {/ \\} x leads {'' / \\ c:/ //}; " +
			"type reg/dir/symlink x3/hardlink/char/fifo/PAX-global, name routes ustar/prefix/PAX-path/GNU-longname; size classes around the lowered limits) and run through one entry point in one destination layout; " +
			"distinct = (entry point, entry list, layout, link form, limits, URL path, manager planting); non-trivial = the stream is well-formed enough to reach Helm's own name/size/path logic " +
			"(every case is; gzip/tar framing errors are a separate outcome class)",
		Run:    run,
		Replay: replay,
		Assumptions: []string{
			"Linux path semantics (filepath separator '/'); Windows drive and backslash handling is exercised only as far as the Linux build executes it",
			"size limits are lowered through loader.MaxDecompressedFileSize/MaxDecompressedChartSize; 'decompressed size' is the sum of file content bytes as the variables' doc comments say - tar headers, padding, PAX/GNU metadata records (capped at 1 MiB each by archive/tar) and directory entries are not counted by Helm and not by the oracle",
			"bytes pulled are measured on a gzip stream with one stored-block member per 512-byte tar block; slack = 511 bytes (the consumer's last read may end inside a member)",
			"following a symlink is observed through its effect (create/modify/delete outside the destination); pure reads through symlinks are not observable by a snapshot and not judged",
			"Pull.Run hard-codes getter.All, so it is driven over a loopback httptest server; ChartDownloader and Manager use in-memory getters / file:// dependencies; OCI references are not covered",
			"one process per shard, cases run sequentially: no concurrent modification of the destination while Helm runs (no TOCTOU exploration)",
		},
		RequiredFloors: []string{"load:accept", "load:reject-parent", "load:reject-abs", "expand:wrote-inside", "expand:reject", "extract:wrote-inside", "extract:reject",
			"layout:symlink-scoped", "size:reject-file", "size:reject-file-within-total", "size:reject-total", "size:accept", "download:wrote", "pull:untarred", "install:installed", "mgr:lock-written", "mgr:symlink-planted"},
	})
}

// explorer state for one worker
type explorer struct {
	c   *core.Ctx
	box *fsbox
	n   int64
	// seen: coarse violation keys already minimised and reported by this worker
	seen map[string]bool
}

func (x *explorer) do(cs Case) {
	if !x.c.NextMine() {
		return
	}
	x.c.Eval(1)
	x.c.Distinct(cs.canon())
	var r result
	if cs.EP == "loadfiles" || cs.EP == "loadarchive" {
		r = runLoad(cs)
	} else {
		r = runFS(x.box, cs)
	}
	if strings.HasPrefix(r.Outcome, "harness-error") {
		x.c.NotExhaustive("%s on %s", r.Outcome, cs.canon())
		return
	}
	x.c.Outcome(r.Outcome)
	if r.DriveName != "" {
		x.c.Count("obs_drive_prefixed_name_exposed", 1)
		x.c.Note("observation (not judged: relative on Linux): %s exposes the drive-prefixed file name %q, e.g. for %v", cs.EP, r.DriveName, cs.Entries)
	}
	x.floors(cs, r)
	for _, v := range r.Viols {
		x.c.Count("violating_observations", 1)
		if x.seen[v.Key] {
			continue // same class and same coarse shape as a case already minimised and reported by this worker
		}
		x.seen[v.Key] = true
		cl := vclass(v.Key)
		m := minimise(x.box, cs, cl)
		reported := false
		if m.canon() != cs.canon() {
			for _, mv := range runAny(x.box, m).Viols {
				if vclass(mv.Key) == cl {
					x.seen[mv.Key] = true
					x.c.Violate(prop, mv.Key, mv.What+" (minimised from: "+cs.describe()+")", m)
					reported = true
					break
				}
			}
		}
		if !reported {
			x.c.Violate(prop, v.Key, v.What, cs)
		}
	}
	x.n++
	if len(r.Viols) == 0 && x.n%9973 == 1 {
		x.c.Sample(map[string]any{"case": cs, "outcome": r.Outcome, "error": r.Err, "changes_only_inside_destination": true})
	}
}

func (x *explorer) floors(cs Case, r result) {
	c := x.c
	ok := strings.HasSuffix(r.Outcome, ":ok")
	switch cs.EP {
	case "loadfiles", "loadarchive":
		if cs.FileLimit == 0 {
			if ok && r.FilesLoaded > 0 {
				c.Floor("load:accept")
			}
			if strings.HasSuffix(r.Outcome, "err:parent") {
				c.Floor("load:reject-parent")
			}
			if strings.HasSuffix(r.Outcome, "err:abs") {
				c.Floor("load:reject-abs")
			}
		} else {
			if strings.HasSuffix(r.Outcome, "err:file-too-large") {
				c.Floor("size:reject-file")
				// vacuity guard for "rejected without reading beyond the limit": a member far above the
				// per-file limit (more than the 511-byte slack) in an archive that is within the total budget
				var tot, big int64
				for _, e := range cs.Entries {
					if e.Type == "reg" && e.Size > 0 {
						tot += e.Size
						if e.Size > big {
							big = e.Size
						}
					}
				}
				if big > cs.FileLimit+511 && tot <= cs.TotalLimit && r.BytesPulled > 0 {
					c.Floor("size:reject-file-within-total")
				}
			}
			if strings.HasSuffix(r.Outcome, "err:total-too-large") {
				c.Floor("size:reject-total")
			}
			if ok && r.ContentBytes > 0 {
				c.Floor("size:accept")
			}
		}
	case "expand", "expandfile":
		if ok && r.WroteInside {
			c.Floor("expand:wrote-inside")
			if strings.Contains(cs.Layout, "sym") || strings.Contains(cs.Layout, "dangling") {
				c.Floor("layout:symlink-scoped")
			}
		}
		if !ok {
			c.Floor("expand:reject")
		}
	case "extract":
		if ok && r.WroteInside {
			c.Floor("extract:wrote-inside")
		}
		if !ok {
			c.Floor("extract:reject")
		}
	case "download":
		if ok && r.WroteInside {
			c.Floor("download:wrote")
		}
	case "pull":
		if ok && r.WroteInside {
			c.Floor("pull:untarred")
		}
	case "install":
		if ok && r.WroteInside {
			c.Floor("install:installed")
		}
	case "mgr":
		if ok && r.WroteInside {
			c.Floor("mgr:lock-written")
		}
		if strings.HasPrefix(cs.Mgr.Plant, "sym-") {
			c.Floor("mgr:symlink-planted")
		}
	}
}

func replay(_ *core.Ctx, data json.RawMessage) []core.Violation {
	var cs Case
	if err := json.Unmarshal(data, &cs); err != nil {
		return nil
	}
	var r result
	if cs.EP == "loadfiles" || cs.EP == "loadarchive" {
		r = runLoad(cs)
	} else {
		b, err := newBox("replay")
		if err != nil {
			return nil
		}
		defer b.destroy()
		r = runFS(b, cs)
	}
	var out []core.Violation
	for _, v := range r.Viols {
		out = append(out, core.Violation{Property: prop, Key: core.SanitizeKey(v.Key), What: v.What, Replay: data})
	}
	return out
}

// ---------- entry construction helpers ----------

func reg(name, data string) Entry { return Entry{Name: name, Type: "reg", Data: data, Actual: -1} }

func adv(name, typ, route string) Entry {
	e := Entry{Name: name, Type: typ, Route: route, Actual: -1}
	if payloadFlag(typeflag(typ)) {
		e.Data = "payload\n"
	}
	return e
}

// the twelve ways one adversarial name is put into a stream
type variant struct{ Type, Route string }

var variants = []variant{
	{"reg", ""}, {"dir", ""}, {"symrel", ""}, {"symdd", ""}, {"symabs", ""}, {"hard", ""}, {"char", ""}, {"fifo", ""}, {"xglob", ""},
	{"reg", "pax"}, {"reg", "gnu"}, {"reg", "prefix"},
}

// payloadTypes: every type flag under which archive/tar delivers file data.
var payloadTypes = []string{"reg", "rega", "cont", "sparse", "unk"}

// loadVariants: the in-memory loaders additionally see every name under the other payload-carrying type flags.
var loadVariants = append(append([]variant{}, variants...), variant{"rega", ""}, variant{"cont", ""}, variant{"sparse", ""}, variant{"unk", ""})

var chartNames = []string{"x", "../x", "/abs", "a/b", ""}

func baseline(chartName string) []Entry {
	return []Entry{reg("x/Chart.yaml", chartYAML(chartName)), reg("x/templates/t.yaml", "a: b\n")}
}

func with(base []Entry, front bool, es ...Entry) []Entry {
	var out []Entry
	if front {
		out = append(out, es...)
		out = append(out, base...)
	} else {
		out = append(out, base...)
		out = append(out, es...)
	}
	return out
}

// union concatenates name lists without duplicates, keeping the first occurrence.
func union(lists ...[]string) []string {
	seen := map[string]bool{}
	var out []string
	for _, l := range lists {
		for _, n := range l {
			if !seen[n] {
				seen[n] = true
				out = append(out, n)
			}
		}
	}
	return out
}

func maxSeg(c *core.Ctx) int {
	if c.Thorough() {
		return 4
	}
	return 3
}

func run(c *core.Ctx) {
	t0 := time.Now()
	box, err := newBox(fmt.Sprintf("w%d", c.Shard))
	if err != nil {
		c.NotExhaustive("cannot create box: %v", err)
		return
	}
	defer box.destroy()
	x := &explorer{c: c, box: box, seen: map[string]bool{}}
	phases := []struct {
		name string
		f    func(*explorer)
	}{
		{"mgr", phaseMgr}, {"download", phaseDownload}, {"sizes", phaseSizes}, {"load-names", phaseLoadNames},
		{"layouts", phaseLayouts}, {"pairs", phasePairs}, {"pull", phasePull}, {"install", phaseInstall}, {"extract-names", phaseExtractNames}, {"expand-names", phaseExpandNames},
	}
	for _, p := range phases {
		if c.Only != "" && c.Only != p.name {
			continue
		}
		t := time.Now()
		before := x.n
		p.f(x)
		c.Count("phase_ms_"+p.name, time.Since(t).Milliseconds())
		c.Count("phase_cases_"+p.name, x.n-before)
	}
	c.Count("phase_ms_total", time.Since(t0).Milliseconds())
}

// ---------- phases ----------

func phaseMgr(x *explorer) {
	for _, api := range []string{"v2", "v1"} {
		for _, ln := range []string{"Chart.lock", "requirements.lock"} {
			for _, pl := range mgrPlants {
				for _, abs := range []bool{false, true} {
					if abs && !strings.HasPrefix(pl, "sym-") {
						continue
					}
					for _, op := range []string{"update", "build"} {
						for _, skip := range []bool{true, false} {
							for _, deps := range []string{"file", "none"} {
								for _, ign := range []bool{false, true} {
									x.do(Case{EP: "mgr", Mgr: &MgrCase{API: api, LockName: ln, Plant: pl, Abs: abs, Op: op, Skip: skip, Deps: deps, Ignore: ign}})
								}
							}
						}
					}
				}
			}
		}
	}
	x.c.Bound("manager_cases", "2 apiVersions x 2 lock names x 8 plantings (x2 link forms) x {Update,Build} x skipUpdate x {file:// dep, no deps} x {no .helmignore, lock names ignored}")
}

var urlPaths = []string{"/x.tgz", "/..", "/.", "/a/..%2f..", "/", "/a/%2e%2e", "/x.tgz/..", "/x.tgz/.", "/%2e%2e%2fx.tgz", "/..%5cx.tgz", "/a/../../x.tgz", "/c:%5cx.tgz", "//x.tgz", "/a/%2e"}

func phaseDownload(x *explorer) {
	for _, u := range urlPaths {
		for _, v := range []string{"never", "later"} {
			for _, l := range downloadLayouts {
				for _, abs := range []bool{false, true} {
					if abs && l != "name-symfile" && l != "name-dangling" {
						continue
					}
					x.do(Case{EP: "download", Entries: baseline("x"), URLPath: u, Verify: v, Layout: l, LinkAbs: abs})
				}
			}
		}
	}
	x.c.Bound("download_url_paths", fmt.Sprint(len(urlPaths)))
}

func phasePull(x *explorer) {
	// every URL path with the baseline archive
	for _, u := range urlPaths {
		for _, ud := range []string{"", "u"} {
			for _, l := range []string{"empty", "top-symdir", "file-symfile"} {
				x.do(Case{EP: "pull", Entries: baseline("x"), Gz: "deflate", URLPath: u, UntarDir: ud, Layout: l})
			}
		}
	}
	// the plain URL with adversarial archives
	names := genNames(1, true, segments)
	if x.c.Thorough() {
		names = genNames(2, true, segments)
	}
	for _, cn := range chartNames {
		for _, ud := range []string{"", "u"} {
			for _, l := range []string{"empty", "top-symdir", "file-symfile", "sub-symdir"} {
				for _, abs := range []bool{false, true} {
					if abs && l == "empty" {
						continue
					}
					for _, n := range names {
						x.do(Case{EP: "pull", Entries: with(baseline(cn), false, adv("x/"+n, "reg", "")), URLPath: "/x.tgz", UntarDir: ud, Layout: l, LinkAbs: abs})
					}
				}
			}
		}
	}
	x.c.Bound("pull_names", fmt.Sprint(len(names)))
}

func phaseInstall(x *explorer) {
	names := union(genNames(1, true, segments), genNames(2, false, segments))
	if x.c.Thorough() {
		names = genNames(2, true, segments)
	}
	one := map[string]bool{}
	for _, n := range genNames(1, true, segments) {
		one[n] = true
	}
	for _, l := range installLayouts {
		for _, abs := range []bool{false, true} {
			if abs && l == "empty" || abs && l == "cache-sub-file" {
				continue
			}
			for _, n := range names {
				for _, v := range variants {
					if !one[n] && v.Type != "reg" && v.Type != "dir" || !one[n] && v.Route != "" {
						continue
					}
					x.do(Case{EP: "install", Entries: []Entry{reg("plugin.yaml", "name: p\n"), adv(n, v.Type, v.Route)}, Gz: "deflate", Layout: l, LinkAbs: abs})
				}
			}
		}
	}
	x.c.Bound("install_names", fmt.Sprint(len(names)))
}

func phaseLoadNames(x *explorer) {
	names := genNames(maxSeg(x.c), true, segments)
	x.c.Bound("names_max_segments", fmt.Sprint(maxSeg(x.c)))
	x.c.Bound("names_total", fmt.Sprint(len(names)))
	for _, n := range names {
		for _, base := range []string{"", "x/"} {
			for _, v := range loadVariants {
				x.do(Case{EP: "loadfiles", Entries: []Entry{adv(base+n, v.Type, v.Route)}})
				x.do(Case{EP: "loadarchive", Entries: with(baseline("x")[:1], false, adv(base+n, v.Type, v.Route))})
			}
		}
	}
	// subchart re-rooting: names below charts/
	for _, n := range genNames(2, false, segments) {
		for _, pre := range []string{"x/charts/", "x/charts/sub/", "x/charts/sub/charts/"} {
			x.do(Case{EP: "loadarchive", Entries: with([]Entry{reg("x/Chart.yaml", chartYAML("x")), reg("x/charts/sub/Chart.yaml", chartYAML("sub"))}, false, adv(pre+n, "reg", ""))})
		}
	}
}

func phaseExpandNames(x *explorer) {
	names := genNames(maxSeg(x.c), true, segments)
	small, three := map[string]bool{}, map[string]bool{}
	for _, n := range genNames(2, true, segments) {
		small[n] = true
	}
	for _, n := range genNames(3, true, segments) {
		three[n] = true
	}
	for _, n := range names {
		for _, base := range []string{"x/", ""} {
			for _, v := range variants {
				if !three[n] && (v.Type != "reg" || v.Route != "") {
					continue // 4-segment names (thorough): plain regular files only
				}
				if !x.c.Thorough() && !small[n] && (v.Type == "char" || v.Type == "fifo" || v.Type == "symdd" || v.Route == "gnu") {
					// quick tier: 3-segment names skip the variants Helm treats exactly like a sibling variant (link/device types are all "not a directory")
					continue
				}
				x.do(Case{EP: "expand", Entries: with(baseline("x"), false, adv(base+n, v.Type, v.Route)), Layout: "empty"})
				if small[n] || x.c.Thorough() && three[n] {
					x.do(Case{EP: "expand", Entries: with(baseline("x"), true, adv(base+n, v.Type, v.Route)), Layout: "empty"})
				}
			}
		}
	}
	efNames := genNames(1, true, segments)
	if x.c.Thorough() {
		efNames = genNames(2, true, segments)
	}
	for _, n := range efNames {
		for _, v := range variants {
			x.do(Case{EP: "expandfile", Entries: with(baseline("x"), false, adv("x/"+n, v.Type, v.Route)), Gz: "deflate", Layout: "empty"})
		}
	}
}

func phaseExtractNames(x *explorer) {
	names := genNames(maxSeg(x.c), true, segments)
	small, three := map[string]bool{}, map[string]bool{}
	for _, n := range genNames(2, true, segments) {
		small[n] = true
	}
	for _, n := range genNames(3, true, segments) {
		three[n] = true
	}
	for _, n := range names {
		for _, v := range variants {
			if !three[n] && (v.Type != "reg" || v.Route != "") {
				continue // 4-segment names (thorough): plain regular files only
			}
			x.do(Case{EP: "extract", Entries: []Entry{adv(n, v.Type, v.Route)}, Layout: "absent"})
			if small[n] || x.c.Thorough() && three[n] {
				x.do(Case{EP: "extract", Entries: []Entry{reg("plugin.yaml", "name: p\n"), adv(n, v.Type, v.Route)}, Layout: "empty"})
			}
		}
	}
}

func phaseLayouts(x *explorer) {
	names := genNames(2, true, segments)
	if x.c.Thorough() {
		names = union(names, genNames(3, false, segments))
	}
	reduced := map[string]bool{}
	for _, n := range union(genNames(1, true, segments), genNames(2, false, segments)) {
		reduced[n] = true
	}
	for _, l := range expandLayouts {
		for _, abs := range []bool{false, true} {
			if abs && l == "empty" || abs && strings.HasSuffix(l, "-file") {
				continue
			}
			for _, cn := range chartNames {
				for _, n := range names {
					if !x.c.Thorough() && cn != "x" && !reduced[n] {
						continue // quick tier: the full name list only with the plain chart name
					}
					for _, t := range []string{"reg", "dir"} {
						x.do(Case{EP: "expand", Entries: with(baseline(cn), false, adv("x/"+n, t, "")), Layout: l, LinkAbs: abs})
					}
				}
			}
		}
	}
	for _, l := range extractLayouts {
		for _, abs := range []bool{false, true} {
			if abs && !strings.Contains(l, "sym") && !strings.Contains(l, "dangling") {
				continue
			}
			for _, n := range names {
				for _, t := range []string{"reg", "dir"} {
					x.do(Case{EP: "extract", Entries: []Entry{reg("plugin.yaml", "name: p\n"), adv(n, t, "")}, Layout: l, LinkAbs: abs})
				}
			}
		}
	}
	x.c.Bound("layout_names", fmt.Sprint(len(names)))
}

var pairSegs = []string{"a", "..", ".", "c:", `a\b`}

func phasePairs(x *explorer) {
	types := []string{"reg", "dir", "symrel", "symdd", "symabs", "symfile", "hard", "char", "xglob"}
	second := genNames(2, false, pairSegs)
	first := append(genNames(1, false, pairSegs), "a/a")
	if x.c.Thorough() {
		first = second
	}
	for _, ep := range []string{"extract", "expand"} {
		pre, lay := "", "absent"
		var base []Entry
		if ep == "expand" {
			pre, lay, base = "x/", "empty", baseline("x")
		}
		for _, n1 := range first {
			for _, t1 := range types {
				for _, n2 := range second {
					for _, t2 := range types {
						x.do(Case{EP: ep, Entries: with(base, false, adv(pre+n1, t1, ""), adv(pre+n2, t2, "")), Layout: lay})
					}
				}
			}
		}
		// three entries: link or dir at a, something at a/a or a again, then a regular file anywhere
		for _, t1 := range []string{"dir", "symrel", "symdd", "symabs", "symfile", "hard"} {
			for _, n2 := range []string{"a/a", "a"} {
				for _, t2 := range []string{"reg", "dir", "symabs", "hard"} {
					for _, n3 := range second {
						x.do(Case{EP: ep, Entries: with(base, false, adv(pre+"a", t1, ""), adv(pre+n2, t2, ""), adv(pre+n3, "reg", "")), Layout: lay})
					}
				}
			}
		}
	}
	x.c.Bound("pair_names", fmt.Sprint(len(second)))
	x.c.Depth(3)
}

// size phase: limits lowered to (F,T); entry options around them.
type sizeOpt struct {
	Type   string
	Size   int64
	Actual int64
	Via    string
}

// leadOpt is a sizeOpt whose content starts with a BOM ("bom") or two ("bom2").
type leadOpt struct {
	sizeOpt
	Lead string
}

// bomOptions: file contents that start with a UTF-8 BOM (Helm trims it from
// the loaded data; the bytes still count against the limits), mixed with a few
// plain files. Sequences are enumerated only if they hold at least one BOM file.
func bomOptions(F, T int64) (bom, plain []leadOpt) {
	b := func(size int64, via, lead string) leadOpt { return leadOpt{sizeOpt{"reg", size, -1, via}, lead} }
	bom = []leadOpt{b(3, "", "bom"), b(6, "", "bom2"), b(4, "", "bom"), b(F, "", "bom"), b(F, "", "bom2"), b(F+1, "", "bom"), b(max64(T-2*F, 3), "", "bom"), b(F, "pax", "bom")}
	plain = []leadOpt{b(0, "", ""), b(1, "", ""), b(F-1, "", ""), b(F, "", "")}
	return
}

func sizeOptions(F, T int64) []sizeOpt {
	o := []sizeOpt{
		{"reg", 0, -1, ""}, {"reg", 1, -1, ""}, {"reg", F - 1, -1, ""}, {"reg", F, -1, ""}, {"reg", F + 1, -1, ""},
		{"reg", F + 5000, -1, ""}, {"reg", T + 1, -1, ""}, {"reg", T + 5000, -1, ""},
		{"reg", F / 2, F / 4, ""}, {"reg", F + 1, 10, ""}, {"reg", 1<<33 - 1, 0, ""}, {"reg", T + 5000, T + 3000, ""},
		{"reg", F, -1, "pax"}, {"reg", F + 1, -1, "pax"}, {"reg", T + 5000, -1, "pax"},
		{"reg", F + 1, -1, "b256"}, {"reg", -5, 0, "b256"}, {"reg", 1 << 40, 0, "b256"},
		{"symabs", F + 1, -1, ""}, {"symabs", 0, -1, ""}, {"dir", F + 1, -1, ""}, {"xglob", F + 1, -1, ""}, {"xglob", T + 5000, -1, ""},
		// above the per-file limit by more than the counting oracle's slack, yet within the total budget (when T allows):
		// a loader that only rejects such a member after reading it is seen by the bytes pulled, not by the result
		{"reg", F + 600, -1, ""}, {"reg", T, -1, ""}, {"reg", T - 1, -1, "pax"},
		// the same under the other payload-carrying type flags
		{"rega", F + 600, -1, ""}, {"cont", F + 600, -1, ""}, {"sparse", F + 600, -1, ""}, {"unk", F + 600, -1, ""}, {"unk", 1, -1, ""},
	}
	return o
}

func phaseSizes(x *explorer) {
	limits := [][2]int64{{1000, 2500}, {512, 1024}, {700, 700}, {512, 8192}}
	if x.c.Thorough() {
		limits = append(limits, [2]int64{1, 1}, [2]int64{4096, 100000})
	}
	for _, lim := range limits {
		F, T := lim[0], lim[1]
		opts := sizeOptions(F, T)
		mk := func(i int, o sizeOpt) Entry {
			return Entry{Name: fmt.Sprintf("x/f%d", i), Type: o.Type, Size: o.Size, Actual: o.Actual, SizeVia: o.Via}
		}
		maxLen := 3
		idx := []int{}
		for l := 1; l <= maxLen; l++ {
			idx = make([]int, l)
			for {
				es := make([]Entry, l)
				for i, j := range idx {
					es[i] = mk(i, opts[j])
				}
				x.do(Case{EP: "loadfiles", Entries: es, FileLimit: F, TotalLimit: T})
				if l == 1 {
					x.do(Case{EP: "loadfiles", Entries: es, FileLimit: F, TotalLimit: T, NoEnd: true})
					x.do(Case{EP: "loadfiles", Entries: es, FileLimit: F, TotalLimit: T, Gz: "deflate"})
				}
				i := l - 1
				for i >= 0 {
					idx[i]++
					if idx[i] < len(opts) {
						break
					}
					idx[i] = 0
					i--
				}
				if i < 0 {
					break
				}
			}
		}
		if x.c.Thorough() {
			red := []sizeOpt{{"reg", 0, -1, ""}, {"reg", 1, -1, ""}, {"reg", F, -1, ""}, {"reg", F + 1, -1, ""}, {"reg", max64(T-2*F, 0), -1, ""}, {"reg", F, -1, "pax"}, {"dir", F + 1, -1, ""}, {"reg", F / 2, F / 4, ""}}
			idx = make([]int, 4)
			for {
				es := make([]Entry, 4)
				for i, j := range idx {
					es[i] = mk(i, red[j])
				}
				x.do(Case{EP: "loadfiles", Entries: es, FileLimit: F, TotalLimit: T})
				i := 3
				for i >= 0 {
					idx[i]++
					if idx[i] < len(red) {
						break
					}
					idx[i] = 0
					i--
				}
				if i < 0 {
					break
				}
			}
		}
		// oversize LAST member, large against everything before it and within the remaining total budget:
		// prefix of 0..2 small files, then one member of F+512 .. remaining bytes, size declared three ways
		overLast := 0
		for _, pre := range [][]int64{{}, {1}, {F}, {1, 1}, {1, F}, {F, F}} {
			var used int64
			for _, p := range pre {
				used += p
			}
			rem := T - used
			for _, sz := range []int64{F + 512, F + 600, 2 * F, 4 * F, 8 * F, rem - 1, rem, rem + 1} {
				if sz <= F {
					continue
				}
				for _, via := range []string{"", "pax", "b256"} {
					for _, lead := range []string{"", "bom"} {
						for _, bt := range payloadTypes {
							if bt != "reg" && lead != "" || bt == "sparse" && via != "" {
								continue
							}
							prefixTypes := []string{"reg"}
							if bt != "reg" && len(pre) > 0 {
								prefixTypes = append(prefixTypes, bt)
							}
							for _, pt := range prefixTypes {
								var es []Entry
								for i, p := range pre {
									es = append(es, Entry{Name: fmt.Sprintf("x/f%d", i), Type: pt, Size: p, Actual: -1})
								}
								es = append(es, Entry{Name: "x/big", Type: bt, Size: sz, Actual: -1, SizeVia: via, Lead: lead})
								overLast += 2
								x.do(Case{EP: "loadfiles", Entries: es, FileLimit: F, TotalLimit: T})
								x.do(Case{EP: "loadarchive", Entries: with([]Entry{reg("x/Chart.yaml", chartYAML("x"))}, false, es...), FileLimit: F, TotalLimit: T})
							}
						}
					}
				}
			}
		}
		x.c.Bound(fmt.Sprintf("size_oversize_last_cases_%d_%d", F, T), fmt.Sprint(overLast))
		// BOM-prefixed contents: all sequences of <=3 entries over bom+plain options with at least one BOM file
		tBom := time.Now()
		bo, pl := bomOptions(F, T)
		mixed := append(append([]leadOpt{}, bo...), pl...)
		bomCases := 0
		for l := 1; l <= 3; l++ {
			idx = make([]int, l)
			for {
				hasBom := false
				es := make([]Entry, l)
				for i, j := range idx {
					es[i] = mk(i, mixed[j].sizeOpt)
					es[i].Lead = mixed[j].Lead
					if mixed[j].Lead != "" {
						hasBom = true
					}
				}
				if hasBom {
					bomCases++
					x.do(Case{EP: "loadfiles", Entries: es, FileLimit: F, TotalLimit: T})
				}
				i := l - 1
				for i >= 0 {
					idx[i]++
					if idx[i] < len(mixed) {
						break
					}
					idx[i] = 0
					i--
				}
				if i < 0 {
					break
				}
			}
		}
		// many small BOM-prefixed files around (and well beyond) the total limit
		type fam struct {
			lead string
			s    int64
		}
		fams := []fam{{"bom", 3}, {"bom", 4}, {"bom", 7}, {"bom", 61}, {"bom", F / 2}, {"bom", F}, {"bom2", 6}, {"bom2", 7}, {"bom2", 61}, {"bom2", F / 2}, {"bom2", F}}
		for _, fm := range fams {
			minSize := int64(3)
			if fm.lead == "bom2" {
				minSize = 6
			}
			if fm.s < minSize {
				continue
			}
			for _, tot := range []int64{T - 1, T, T + 1, T + fm.s, 3 * T} {
				n := tot / fm.s
				if n < 1 {
					continue
				}
				var es []Entry
				for i := int64(0); i < n; i++ {
					es = append(es, Entry{Name: fmt.Sprintf("x/f%d", i), Type: "reg", Size: fm.s, Actual: -1, Lead: fm.lead})
				}
				if rest := tot - n*fm.s; rest > 0 {
					e := Entry{Name: "x/rest", Type: "reg", Size: rest, Actual: -1}
					if rest >= 3 {
						e.Lead = "bom"
					}
					es = append(es, e)
				}
				bomCases += 2
				x.do(Case{EP: "loadfiles", Entries: es, FileLimit: F, TotalLimit: T})
				x.do(Case{EP: "loadarchive", Entries: with([]Entry{reg("x/Chart.yaml", chartYAML("x"))}, true, es...), FileLimit: F, TotalLimit: T})
			}
		}
		x.c.Bound(fmt.Sprintf("size_bom_cases_%d_%d", F, T), fmt.Sprint(bomCases))
		x.c.Count("phase_ms_sizes_bom", time.Since(tBom).Milliseconds())
		// many small files around the total limit
		for _, s := range []int64{1, 7, 61, F / 2, F} {
			for _, tot := range []int64{T - 1, T, T + 1, T + s} {
				if s < 1 {
					continue
				}
				n := tot / s
				if n < 1 {
					continue
				}
				var es []Entry
				for i := int64(0); i < n; i++ {
					es = append(es, Entry{Name: fmt.Sprintf("x/f%d", i), Type: "reg", Size: s, Actual: -1})
				}
				if rest := tot - n*s; rest > 0 {
					es = append(es, Entry{Name: "x/rest", Type: "reg", Size: rest, Actual: -1})
				}
				x.do(Case{EP: "loadfiles", Entries: es, FileLimit: F, TotalLimit: T})
				x.do(Case{EP: "loadarchive", Entries: with([]Entry{reg("x/Chart.yaml", chartYAML("x"))}, true, es...), FileLimit: F, TotalLimit: T})
			}
		}
		x.c.Bound(fmt.Sprintf("size_limits_%d_%d", F, T), fmt.Sprintf("%d options ^ <=3 entries + many-small families", len(opts)))
	}
}
