package c16

import (
	"bytes"
	"encoding/binary"
	"fmt"
	"hash/crc32"
	"io"
	"strings"
)

// Entry is one logical tar entry of a generated stream. The stream is written
// by a raw USTAR encoder (not archive/tar.Writer, which refuses several of the
// shapes enumerated here).
type Entry struct {
	// Name as the attacker wants the reader to see it.
	Name string `json:"name"`
	// Route says how Name is delivered: "" = ustar name field, "prefix" =
	// ustar prefix+name split at the last '/', "pax" = PAX 'x' record path=,
	// "gnu" = GNU 'L' long-name entry.
	Route string `json:"route,omitempty"`
	// Type: reg dir symrel symdd symabs symfile hard char fifo xglob rega cont sparse unk
	Type string `json:"type"`
	// Size is the declared size; Actual the number of content bytes really
	// present (Actual < Size truncates the stream right there). -1 = same as Size.
	Size   int64 `json:"size"`
	Actual int64 `json:"actual"`
	// SizeVia: "" octal field, "pax" PAX size= record (octal field says 0),
	// "b256" base-256 binary field.
	SizeVia string `json:"size_via,omitempty"`
	// Data overrides the generated content (Chart.yaml etc).
	Data string `json:"data,omitempty"`
	Mode int64  `json:"mode,omitempty"`
	// Lead makes the generated content start with one ("bom") or two ("bom2")
	// UTF-8 byte order marks (cut to Size; Size 3 with "bom" is a BOM-only file).
	Lead string `json:"lead,omitempty"`
}

func (e Entry) String() string {
	s := fmt.Sprintf("%s:%q", e.Type, e.Name)
	if e.Route != "" {
		s += "@" + e.Route
	}
	if e.Data == "" && (e.Size != 0 || e.Actual >= 0) {
		s += fmt.Sprintf("[%d/%d%s]", e.Size, e.Actual, e.SizeVia)
	}
	if e.Lead != "" {
		s += "~" + e.Lead
	}
	return s
}

func typeflag(t string) byte {
	switch t {
	case "reg":
		return '0'
	case "hard":
		return '1'
	case "symrel", "symdd", "symabs", "symfile":
		return '2'
	case "char":
		return '3'
	case "dir":
		return '5'
	case "fifo":
		return '6'
	case "xglob":
		return 'g'
	// payload-carrying flags other than '0': archive/tar hands their data to the caller like a regular file's
	case "rega":
		return 0 // the old NUL type flag (TypeRegA)
	case "cont":
		return '7' // contiguous file
	case "sparse":
		return 'S' // old GNU sparse format, one data fragment covering the whole file
	case "unk":
		return 'Z' // a letter no standard assigns
	}
	panic("type " + t)
}

// linkTarget gives the link name of link-type entries. outsideAbs is the
// absolute path of the box's outside directory.
func linkTarget(t, outsideAbs string) string {
	switch t {
	case "symrel":
		return "../../outside/dir"
	case "symdd":
		return ".."
	case "symabs":
		return outsideAbs + "/dir"
	case "symfile":
		return outsideAbs + "/secret"
	case "hard":
		return outsideAbs + "/secret"
	}
	return ""
}

// payloadFlag: type flags whose entries carry file data in the stream.
func payloadFlag(f byte) bool { return f == '0' || f == 0 || f == '7' || f == 'S' || f == 'Z' }

func octal(b []byte, v int64) {
	s := fmt.Sprintf("%0*o", len(b)-1, v)
	copy(b, s)
	b[len(b)-1] = 0
}

// rawHeader builds one 512-byte USTAR header block.
func rawHeader(name, prefix string, flag byte, size int64, b256 bool, link string, mode int64) []byte {
	h := make([]byte, 512)
	copy(h[0:100], name)
	if mode == 0 {
		mode = 0o644
	}
	octal(h[100:108], mode)
	octal(h[108:116], 0)
	octal(h[116:124], 0)
	if b256 {
		h[124] = 0x80
		binary.BigEndian.PutUint64(h[128:136], uint64(size))
		if size < 0 {
			for i := 124; i < 128; i++ {
				h[i] = 0xff
			}
		}
	} else {
		octal(h[124:136], size)
	}
	octal(h[136:148], 0)
	h[156] = flag
	copy(h[157:257], link)
	copy(h[257:263], "ustar\x00")
	copy(h[263:265], "00")
	copy(h[345:500], prefix)
	if flag == 'S' && !b256 && size >= 0 {
		// old GNU sparse header: GNU magic, one fragment (offset 0, length size), real size = size
		copy(h[257:265], "ustar  \x00")
		for i := 345; i < 500; i++ {
			h[i] = 0
		}
		octal(h[386:398], 0)
		octal(h[398:410], size)
		octal(h[483:495], size)
	}
	for i := 148; i < 156; i++ {
		h[i] = ' '
	}
	var sum int64
	for _, c := range h {
		sum += int64(c)
	}
	copy(h[148:156], fmt.Sprintf("%06o\x00 ", sum))
	return h
}

func pad512(b []byte) []byte {
	if r := len(b) % 512; r != 0 {
		b = append(b, make([]byte, 512-r)...)
	}
	return b
}

func paxRecord(k, v string) string {
	// "<len> k=v\n" where len counts itself
	body := " " + k + "=" + v + "\n"
	n := len(body) + 1
	for len(fmt.Sprint(n))+len(body) != n {
		n = len(fmt.Sprint(n)) + len(body)
	}
	return fmt.Sprint(n) + body
}

// content generates deterministic file content of n bytes.
func content(n int64) []byte { return contentLead(n, "") }

// contentLead is content with a leading BOM ("bom") or two ("bom2").
func contentLead(n int64, lead string) []byte {
	b := make([]byte, n)
	for i := range b {
		b[i] = 'A' + byte(i%23)
	}
	switch lead {
	case "bom":
		copy(b, "\xef\xbb\xbf")
	case "bom2":
		copy(b, "\xef\xbb\xbf\xef\xbb\xbf")
	}
	return b
}

// span describes what a 512-byte block of the tar stream holds, for the
// counting-reader oracle.
type span struct {
	Entry   int // index into entries, -1 = end marker
	Content int // number of file-content bytes of a file-like entry in this block (0 for header / pax / padding-only blocks)
}

// buildTar returns the raw tar stream and a per-block description.
func buildTar(entries []Entry, outsideAbs string, endMarker bool) ([]byte, []span) {
	var out []byte
	var spans []span
	add := func(b []byte, ei int, contentBytes int) {
		out = append(out, b...)
		for i := 0; i < len(b); i += 512 {
			c := 0
			if contentBytes > 0 {
				c = contentBytes - i
				if c > 512 {
					c = 512
				}
				if c < 0 {
					c = 0
				}
			}
			spans = append(spans, span{Entry: ei, Content: c})
		}
	}
	for ei, e := range entries {
		name, prefix := e.Name, ""
		var pax string
		switch e.Route {
		case "prefix":
			if i := strings.LastIndex(name, "/"); i > 0 {
				prefix, name = name[:i], name[i+1:]
			}
		case "pax":
			pax += paxRecord("path", name)
			name = "placeholder/pax"
		case "gnu":
			d := pad512([]byte(name + "\x00"))
			add(rawHeader("././@LongLink", "", 'L', int64(len(e.Name)+1), false, "", 0), ei, 0)
			add(d, ei, 0)
			name = "placeholder/gnu"
		}
		size := e.Size
		fieldSize := size
		if e.SizeVia == "pax" {
			pax += paxRecord("size", fmt.Sprint(size))
			fieldSize = 0
		}
		if pax != "" {
			add(rawHeader("PaxHeaders.0/x", "", 'x', int64(len(pax)), false, "", 0), ei, 0)
			add(pad512([]byte(pax)), ei, 0)
		}
		data := []byte(e.Data)
		if e.Data != "" {
			size, fieldSize = int64(len(data)), int64(len(data))
		}
		flag := typeflag(e.Type)
		if flag == 'g' {
			// a PAX global header: its data is a well-formed record of about Size bytes
			d := []byte(paxRecord("comment", strings.Repeat("c", int(max64(size, 1)))))
			add(rawHeader(name, prefix, flag, int64(len(d)), false, "", 0), ei, 0)
			add(pad512(d), ei, 0)
			continue
		}
		add(rawHeader(name, prefix, flag, fieldSize, e.SizeVia == "b256", linkTarget(e.Type, outsideAbs), e.Mode), ei, 0)
		if e.Data != "" {
			add(pad512(data), ei, len(data))
			continue
		}
		if !payloadFlag(flag) {
			// link / dir / device entries carry no data in the stream whatever the size field says
			continue
		}
		actual := e.Actual
		if actual < 0 || actual > size {
			actual = size
		}
		if actual > 0 {
			add(pad512(contentLead(actual, e.Lead)), ei, int(actual))
		}
		if actual < size {
			// truncated: the stream ends inside this entry (no padding, no end marker)
			if r := int(actual) % 512; r != 0 {
				out = out[:len(out)-(512-r)]
			}
			return out, spans
		}
	}
	if endMarker {
		add(make([]byte, 1024), -1, 0)
	}
	return out, spans
}

func max64(a, b int64) int64 {
	if a > b {
		return a
	}
	return b
}

// gzipStored wraps raw bytes in a gzip stream made of one member per
// `chunk` bytes, each member being a single final stored (uncompressed) deflate
// block. A decompressor has no reason to pull the data of member i+1 before the
// consumer has asked for a byte of it (compress/gzip reads only the 10-byte
// header of the next member when it finishes one), so the number of compressed
// bytes pulled from the source maps exactly to a number of decompressed chunks.
const gzMemberOverhead = 10 + 5 + 8

func gzipStored(raw []byte, chunk int) []byte {
	var out bytes.Buffer
	if len(raw) == 0 {
		raw = []byte{}
	}
	for off := 0; off == 0 || off < len(raw); off += chunk {
		end := off + chunk
		if end > len(raw) {
			end = len(raw)
		}
		d := raw[off:end]
		out.Write([]byte{0x1f, 0x8b, 8, 0, 0, 0, 0, 0, 0, 0xff})
		out.WriteByte(1) // BFINAL=1, BTYPE=00
		var l [4]byte
		binary.LittleEndian.PutUint16(l[0:2], uint16(len(d)))
		binary.LittleEndian.PutUint16(l[2:4], ^uint16(len(d)))
		out.Write(l[:])
		out.Write(d)
		var t [8]byte
		binary.LittleEndian.PutUint32(t[0:4], crc32.ChecksumIEEE(d))
		binary.LittleEndian.PutUint32(t[4:8], uint32(len(d)))
		out.Write(t[:])
		if len(raw) == 0 {
			break
		}
	}
	return out.Bytes()
}

// blocksPulled converts a number of compressed bytes pulled from a
// gzipStored(raw, 512) stream into the number of 512-byte chunks whose data the
// decompressor has touched.
func blocksPulled(compressed int64) int {
	const member = 512 + gzMemberOverhead
	full := compressed / member
	rest := compressed % member
	n := int(full)
	if rest > 10 { // beyond the member's gzip header: the data block is being pulled
		n++
	}
	return n
}

// countingReader counts the bytes handed out. It implements io.ByteReader so
// that compress/gzip and compress/flate use it directly instead of wrapping it
// into a 4 KiB bufio.Reader.
type countingReader struct {
	b   []byte
	pos int64
}

func (c *countingReader) Read(p []byte) (int, error) {
	if c.pos >= int64(len(c.b)) {
		return 0, io.EOF
	}
	n := copy(p, c.b[c.pos:])
	c.pos += int64(n)
	return n, nil
}

func (c *countingReader) ReadByte() (byte, error) {
	if c.pos >= int64(len(c.b)) {
		return 0, io.EOF
	}
	b := c.b[c.pos]
	c.pos++
	return b, nil
}
