package c16

import (
	"fmt"
	"io"
	"os"
	"path/filepath"

	"helm.sh/helm/v4/pkg/downloader"
	"helm.sh/helm/v4/pkg/getter"
)

// MgrCase: a chart directory (box/dest) with a local file:// dependency
// (box/dep) and something planted at the lock file's path.
type MgrCase struct {
	API      string `json:"api"`       // v1 (requirements.yaml / requirements.lock) | v2 (Chart.yaml / Chart.lock)
	LockName string `json:"lock_name"` // Chart.lock | requirements.lock: where the plant goes
	Plant    string `json:"plant"`     // none stale-file sym-secret sym-lock sym-empty sym-garbage sym-dangling sym-dir
	Abs      bool   `json:"abs,omitempty"`
	Op       string `json:"op"` // update | build
	Skip     bool   `json:"skip_update"`
	Deps     string `json:"deps"` // file | none
	// Ignore: a .helmignore that lists both lock file names (the loader then never reads the planted object)
	Ignore bool `json:"helmignore,omitempty"`
}

var mgrPlants = []string{"none", "stale-file", "sym-secret", "sym-lock", "sym-empty", "sym-garbage", "sym-dangling", "sym-dir"}

func (m *MgrCase) shape() string {
	cl := m.Plant
	switch m.Plant {
	case "sym-secret", "sym-lock", "sym-empty", "sym-garbage":
		cl = "symlink-to-file"
	}
	return fmt.Sprintf("at=%s/plant=%s", m.LockName, cl)
}

func (m *MgrCase) describe() string {
	return fmt.Sprintf("Manager.%s on an apiVersion %s chart, deps=%s, skipUpdate=%v, %s planted at %s (abs link=%v, lock names in .helmignore=%v)", m.Op, m.API, m.Deps, m.Skip, m.Plant, m.LockName, m.Abs, m.Ignore)
}

const staleLock = "dependencies:\n- name: dep\n  repository: file://../dep\n  version: 0.0.9\ndigest: sha256:0000\ngenerated: \"2020-01-01T00:00:00Z\"\n"

func (m *MgrCase) setup(b *fsbox) error {
	dest := b.Dest()
	dep := filepath.Join(b.Box(), "dep")
	if err := os.MkdirAll(dep, 0o755); err != nil {
		return err
	}
	w := func(p, s string) error { return os.WriteFile(p, []byte(s), 0o644) }
	if err := w(filepath.Join(dep, "Chart.yaml"), "apiVersion: v2\nname: dep\nversion: 0.1.0\n"); err != nil {
		return err
	}
	deps := ""
	if m.Deps == "file" {
		deps = "dependencies:\n- name: dep\n  version: 0.1.0\n  repository: file://../dep\n"
	}
	if m.API == "v1" {
		if err := w(filepath.Join(dest, "Chart.yaml"), "apiVersion: v1\nname: parent\nversion: 0.1.0\n"); err != nil {
			return err
		}
		if deps != "" {
			if err := w(filepath.Join(dest, "requirements.yaml"), deps); err != nil {
				return err
			}
		}
	} else {
		if err := w(filepath.Join(dest, "Chart.yaml"), "apiVersion: v2\nname: parent\nversion: 0.1.0\n"+deps); err != nil {
			return err
		}
	}
	if m.Ignore {
		if err := w(filepath.Join(dest, ".helmignore"), "Chart.lock\nrequirements.lock\n"); err != nil {
			return err
		}
	}
	// outside targets
	out := b.Outside()
	if err := w(filepath.Join(out, "lock.yaml"), staleLock); err != nil {
		return err
	}
	if err := w(filepath.Join(out, "empty"), ""); err != nil {
		return err
	}
	if err := w(filepath.Join(out, "garbage"), ":\n\t- {\n"); err != nil {
		return err
	}
	lp := "dest/" + m.LockName
	var ps []plant
	sym := func(t string) plant { return plant{Path: lp, Kind: "symlink", Target: t, Abs: m.Abs} }
	switch m.Plant {
	case "stale-file":
		ps = append(ps, plant{Path: lp, Kind: "file", Data: staleLock})
	case "sym-secret":
		ps = append(ps, sym("outside/secret"))
	case "sym-lock":
		ps = append(ps, sym("outside/lock.yaml"))
	case "sym-empty":
		ps = append(ps, sym("outside/empty"))
	case "sym-garbage":
		ps = append(ps, sym("outside/garbage"))
	case "sym-dangling":
		ps = append(ps, sym("outside/new.lock"))
	case "sym-dir":
		ps = append(ps, sym("outside/dir"))
	}
	return b.apply(ps)
}

func (m *MgrCase) call(b *fsbox) error {
	man := &downloader.Manager{
		Out:              io.Discard,
		ChartPath:        b.Dest(),
		SkipUpdate:       m.Skip,
		Getters:          getter.Providers{},
		RepositoryConfig: filepath.Join(b.Root, "norepo", "repositories.yaml"),
		RepositoryCache:  filepath.Join(b.Root, "norepo", "cache"),
	}
	if m.Op == "build" {
		return man.Build()
	}
	return man.Update()
}
