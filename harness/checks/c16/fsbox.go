package c16

import (
	"crypto/sha256"
	"encoding/hex"
	"fmt"
	"os"
	"path/filepath"
	"sort"
	"strings"
)

// fsbox: a scratch tree
//
//	<root>/box/dest      the destination handed to Helm (or a parent of it)
//	<root>/box/outside   things that must never change: secret (file), dir/keep
//	<root>/tmp           TMPDIR while a case runs
//
// A snapshot lists everything under <root> without following symlinks. The
// oracle: every difference between the snapshot before and after the call lies
// under one of the allowed prefixes (the chosen destination).
type fsbox struct {
	Root string
	// dirty: the tree may differ from the pristine one; pristine is the
	// snapshot taken right after the last reset.
	dirty    bool
	pristine snapshot
}

// clean makes the tree pristine again. A case that provably left the tree
// untouched (empty before/after diff, nothing planted) needs no work.
func (b *fsbox) clean() error {
	if !b.dirty && b.pristine != nil {
		return nil
	}
	if err := b.reset(); err != nil {
		return err
	}
	s, err := snap(b.Root)
	if err != nil {
		return err
	}
	b.pristine, b.dirty = s, false
	return nil
}

const secretContent = "SECRET: outside\n"

// boxBase: the scratch trees live on tmpfs when there is one (a box is wiped and
// rebuilt for every case; on the ext4 root disk that costs 5 ms per case, on
// tmpfs 0.1 ms). VERIF_C16_BOX overrides; /var/tmp/vc16/box is the fallback.
func boxBase() string {
	if d := os.Getenv("VERIF_C16_BOX"); d != "" {
		return d
	}
	if fi, err := os.Stat("/dev/shm"); err == nil && fi.IsDir() {
		d := "/dev/shm/vc16-box"
		if err := os.MkdirAll(d, 0o755); err == nil {
			return d
		}
	}
	return "/var/tmp/vc16/box"
}

func newBox(tag string) (*fsbox, error) {
	base := boxBase()
	// remove boxes left behind by workers that no longer exist
	if ents, err := os.ReadDir(base); err == nil {
		for _, e := range ents {
			var pid int
			if _, err := fmt.Sscanf(e.Name(), "%d-", &pid); err == nil && pid > 0 {
				if _, err := os.Stat(fmt.Sprintf("/proc/%d", pid)); os.IsNotExist(err) {
					os.RemoveAll(filepath.Join(base, e.Name()))
				}
			}
		}
	}
	root := filepath.Join(base, fmt.Sprintf("%d-%s", os.Getpid(), tag))
	b := &fsbox{Root: root}
	return b, b.reset()
}

func (b *fsbox) Box() string     { return filepath.Join(b.Root, "box") }
func (b *fsbox) Dest() string    { return filepath.Join(b.Root, "box", "dest") }
func (b *fsbox) Outside() string { return filepath.Join(b.Root, "box", "outside") }
func (b *fsbox) Tmp() string     { return filepath.Join(b.Root, "tmp") }

// reset wipes the tree and recreates the fixed part.
func (b *fsbox) reset() error {
	if err := os.RemoveAll(b.Root); err != nil {
		return err
	}
	for _, d := range []string{b.Dest(), filepath.Join(b.Outside(), "dir"), b.Tmp()} {
		if err := os.MkdirAll(d, 0o755); err != nil {
			return err
		}
	}
	if err := os.WriteFile(filepath.Join(b.Outside(), "secret"), []byte(secretContent), 0o644); err != nil {
		return err
	}
	return os.WriteFile(filepath.Join(b.Outside(), "dir", "keep"), []byte("keep\n"), 0o644)
}

func (b *fsbox) destroy() { os.RemoveAll(b.Root) }

// plant is one pre-existing object of a destination layout.
type plant struct {
	Path   string // relative to <root>/box
	Kind   string // dir | file | symlink
	Target string // symlink: target relative to <root>/box (made relative or absolute by Abs), or literal when Literal
	Abs    bool
	Data   string
}

func (b *fsbox) apply(ps []plant) error {
	for _, p := range ps {
		full := filepath.Join(b.Box(), p.Path)
		if err := os.MkdirAll(filepath.Dir(full), 0o755); err != nil {
			return err
		}
		switch p.Kind {
		case "dir":
			if err := os.MkdirAll(full, 0o755); err != nil {
				return err
			}
		case "file":
			if err := os.WriteFile(full, []byte(p.Data), 0o644); err != nil {
				return err
			}
		case "symlink":
			tgt := filepath.Join(b.Box(), p.Target)
			if !p.Abs {
				rel, err := filepath.Rel(filepath.Dir(full), tgt)
				if err != nil {
					return err
				}
				tgt = rel
			}
			if err := os.Symlink(tgt, full); err != nil {
				return err
			}
		}
	}
	return nil
}

// snapEntry is one object of a snapshot.
type snapEntry struct {
	Type string // dir file symlink other
	Mode os.FileMode
	Link string
	Sum  string
}

type snapshot map[string]snapEntry

// snap walks root without following symlinks.
func snap(root string) (snapshot, error) {
	s := snapshot{}
	var walk func(dir, rel string) error
	walk = func(dir, rel string) error {
		ents, err := os.ReadDir(dir)
		if err != nil {
			return err
		}
		for _, e := range ents {
			p := filepath.Join(dir, e.Name())
			r := rel + "/" + e.Name()
			fi, err := os.Lstat(p)
			if err != nil {
				return err
			}
			se := snapEntry{Mode: fi.Mode().Perm()}
			switch {
			case fi.Mode()&os.ModeSymlink != 0:
				se.Type = "symlink"
				se.Link, _ = os.Readlink(p)
				se.Mode = 0
			case fi.IsDir():
				se.Type = "dir"
			case fi.Mode().IsRegular():
				se.Type = "file"
				data, err := os.ReadFile(p)
				if err != nil {
					return err
				}
				h := sha256.Sum256(data)
				se.Sum = hex.EncodeToString(h[:8])
			default:
				se.Type = "other:" + fi.Mode().Type().String()
			}
			s[r] = se
			if se.Type == "dir" {
				if err := walk(p, r); err != nil {
					return err
				}
			}
		}
		return nil
	}
	return s, walk(root, "")
}

// change is one difference between two snapshots.
type change struct {
	Path string
	Kind string // created deleted changed
	Desc string
}

func diffSnap(before, after snapshot) []change {
	var out []change
	for p, a := range after {
		b, ok := before[p]
		if !ok {
			d := a.Type
			if a.Link != "" {
				d += "->" + a.Link
			}
			out = append(out, change{p, "created", d})
		} else if a != b {
			d := b.Type + " -> " + a.Type
			if a.Sum != b.Sum {
				d += ", content changed"
			}
			if a.Mode != b.Mode {
				d += fmt.Sprintf(", mode %v -> %v", b.Mode, a.Mode)
			}
			if a.Link != b.Link {
				d += ", link target changed"
			}
			out = append(out, change{p, "changed", d})
		}
	}
	for p := range before {
		if _, ok := after[p]; !ok {
			out = append(out, change{p, "deleted", before[p].Type})
		}
	}
	sort.Slice(out, func(i, j int) bool { return out[i].Path < out[j].Path })
	return out
}

// escapes filters the changes that lie outside every allowed prefix (paths are
// relative to root, starting with "/"). A prefix covers itself and everything
// below it.
func escapes(chs []change, allowed []string) []change {
	var out []change
	for _, c := range chs {
		ok := false
		for _, a := range allowed {
			if c.Path == a || strings.HasPrefix(c.Path, a+"/") {
				ok = true
				break
			}
		}
		if !ok {
			out = append(out, c)
		}
	}
	return out
}
