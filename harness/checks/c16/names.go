package c16

import (
	"sort"
	"strings"
)

// The name grammar of the property's design: concatenations of at most three
// segments joined by '/' or '\' (chosen per joint) with an optional leading
// prefix.
var (
	segments = []string{"a", "..", ".", "", "c:", `a\b`, `\`}
	joiners  = []string{"/", `\`}
	leads    = []string{"", "/", `\`, "c:/", "//"}
)

// genNames lists every name with at most maxSeg segments, simplest first,
// without duplicates. withLeads=false keeps only the empty lead.
func genNames(maxSeg int, withLeads bool, segs []string) []string {
	seen := map[string]bool{}
	var out []string
	ls := leads
	if !withLeads {
		ls = leads[:1]
	}
	for k := 1; k <= maxSeg; k++ {
		for _, lead := range ls {
			idx := make([]int, k)
			for {
				nj := k - 1
				for jm := 0; jm < 1<<nj; jm++ {
					var sb strings.Builder
					sb.WriteString(lead)
					for i := 0; i < k; i++ {
						if i > 0 {
							sb.WriteString(joiners[(jm>>(i-1))&1])
						}
						sb.WriteString(segs[idx[i]])
					}
					n := sb.String()
					if n != "" && !seen[n] {
						seen[n] = true
						out = append(out, n)
					}
				}
				i := k - 1
				for i >= 0 {
					idx[i]++
					if idx[i] < len(segs) {
						break
					}
					idx[i] = 0
					i--
				}
				if i < 0 {
					break
				}
			}
		}
	}
	return out
}

// cleanRelSlash is the reference for "a clean relative slash path": non-empty
// components separated by single '/', none of them "." or "..", no backslash,
// no leading '/'.
func cleanRelSlash(n string) bool {
	if n == "" || strings.ContainsRune(n, '\\') {
		return false
	}
	for _, c := range strings.Split(n, "/") {
		if c == "" || c == "." || c == ".." {
			return false
		}
	}
	return true
}

// driveAbs: "c:/..." - relative on Linux (so not judged by the property as
// stated), absolute on Windows; Helm's archive loader rejects such names at
// the top level. Recorded as an observation only.
func driveAbs(n string) bool {
	return len(n) >= 3 && n[1] == ':' && n[2] == '/' && (n[0]|0x20 >= 'a' && n[0]|0x20 <= 'z')
}

// nameShape reduces a name to the features that matter for finding keys.
func nameShape(n string) string {
	var f []string
	slashed := strings.ReplaceAll(n, `\`, "/")
	for _, c := range strings.Split(slashed, "/") {
		if c == ".." {
			f = append(f, "dotdot")
			break
		}
	}
	if strings.HasPrefix(n, "/") {
		f = append(f, "abs")
	}
	if strings.HasPrefix(n, `\`) {
		f = append(f, "bsabs")
	}
	if strings.Contains(n, `\`) {
		f = append(f, "bs")
	}
	if strings.Contains(n, "c:") {
		f = append(f, "drive")
	}
	if len(f) == 0 {
		return "plain"
	}
	sort.Strings(f)
	return strings.Join(f, "+")
}
