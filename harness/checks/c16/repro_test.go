package c16

// Stand-alone reproductions of the two findings against the real API (no
// explorer, no fsbox). Informational: they log what happens and never fail, so
// they keep passing once the defects are fixed.

import (
	"bytes"
	"io"
	"os"
	"path/filepath"
	"testing"

	"helm.sh/helm/v4/pkg/downloader"
	"helm.sh/helm/v4/pkg/getter"
)

func TestReproWriteLockFollowsSymlink(t *testing.T) {
	root := t.TempDir()
	chart, dep, victim := filepath.Join(root, "parent"), filepath.Join(root, "dep"), filepath.Join(root, "victim.yaml")
	os.MkdirAll(chart, 0o755)
	os.MkdirAll(dep, 0o755)
	os.WriteFile(filepath.Join(dep, "Chart.yaml"), []byte("apiVersion: v2\nname: dep\nversion: 0.1.0\n"), 0o644)
	os.WriteFile(filepath.Join(chart, "Chart.yaml"), []byte("apiVersion: v2\nname: parent\nversion: 0.1.0\ndependencies:\n- name: dep\n  version: 0.1.0\n  repository: file://../dep\n"), 0o644)
	os.WriteFile(victim, []byte("precious: data\n"), 0o644)
	os.Symlink(victim, filepath.Join(chart, "Chart.lock"))
	m := &downloader.Manager{Out: io.Discard, ChartPath: chart, SkipUpdate: true, Getters: getter.Providers{},
		RepositoryConfig: filepath.Join(root, "none.yaml"), RepositoryCache: filepath.Join(root, "cache")}
	err := m.Update()
	got, _ := os.ReadFile(victim)
	t.Logf("Update err=%v; file outside the chart directory now contains:\n%s", err, got)
	if string(got) != "precious: data\n" {
		t.Log("DEFECT PRESENT: Chart.lock was written through the planted symlink")
	}
}

type fixedGetter struct{}

func (fixedGetter) Get(string, ...getter.Option) (*bytes.Buffer, error) {
	return bytes.NewBufferString("attacker bytes"), nil
}

func TestReproDownloadToDotDot(t *testing.T) {
	root := t.TempDir()
	dest := filepath.Join(root, "parent", "dest")
	os.MkdirAll(dest, 0o755)
	dl := downloader.ChartDownloader{Out: io.Discard, RepositoryConfig: filepath.Join(root, "none.yaml"), RepositoryCache: filepath.Join(root, "cache"),
		Getters: getter.Providers{{Schemes: []string{"http"}, New: func(...getter.Option) (getter.Getter, error) { return fixedGetter{}, nil }}}}
	_, _, err := dl.DownloadTo("http://example.invalid/charts/..", "", dest)
	ents, _ := os.ReadDir(root)
	var names []string
	for _, e := range ents {
		names = append(names, e.Name())
	}
	t.Logf("DownloadTo err=%v; entries next to dest's parent: %v", err, names)
	if len(names) > 1 {
		t.Log("DEFECT PRESENT: a temp file was created two levels above the destination and left behind")
	}
}
