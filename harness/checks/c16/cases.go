package c16

import (
	"bytes"
	"compress/gzip"
	"encoding/json"
	"fmt"
	"io"
	"net/http"
	"net/http/httptest"
	"os"
	"path/filepath"
	"regexp"
	"sort"
	"strings"
	"sync"

	"helm.sh/helm/v4/pkg/action"
	chart "helm.sh/helm/v4/pkg/chart/v2"
	"helm.sh/helm/v4/pkg/chart/v2/loader"
	chartutil "helm.sh/helm/v4/pkg/chart/v2/util"
	"helm.sh/helm/v4/pkg/cli"
	"helm.sh/helm/v4/pkg/downloader"
	"helm.sh/helm/v4/pkg/getter"
	"helm.sh/helm/v4/pkg/plugin/cache"
	"helm.sh/helm/v4/pkg/plugin/installer"
)

// Case is one fully described execution; it is also the replay format.
type Case struct {
	EP      string  `json:"ep"` // loadfiles loadarchive expand expandfile extract download pull mgr
	Entries []Entry `json:"entries,omitempty"`
	Gz      string  `json:"gz,omitempty"` // "" = stored blocks, one gzip member per 512 bytes; "deflate" = compress/gzip
	NoEnd   bool    `json:"no_end,omitempty"`
	Layout  string  `json:"layout,omitempty"`
	LinkAbs bool    `json:"link_abs,omitempty"`
	// size limits (0 = Helm defaults)
	FileLimit  int64 `json:"file_limit,omitempty"`
	TotalLimit int64 `json:"total_limit,omitempty"`
	// download / pull
	URLPath  string `json:"url_path,omitempty"`
	Verify   string `json:"verify,omitempty"`
	UntarDir string `json:"untar_dir,omitempty"`
	// manager
	Mgr *MgrCase `json:"mgr,omitempty"`
}

func (cs Case) canon() string { b, _ := json.Marshal(cs); return string(b) }

type viol struct {
	Key  string
	What string
}

type result struct {
	Outcome string
	Err     string
	Viols   []viol
	// observations used for floors
	WroteInside  bool
	FilesLoaded  int
	BytesPulled  int64
	ContentBytes int64
	DriveName    string
}

const (
	defFile  = int64(5 * 1024 * 1024)
	defTotal = int64(100 * 1024 * 1024)
)

func chartYAML(name string) string {
	return fmt.Sprintf("apiVersion: v2\nname: %q\nversion: 0.1.0\n", name)
}

// shape of the adversarial part of a case for finding keys: the set of
// features of the non-baseline entries (name features, link types, name
// routes) and of the chart name.
func (cs Case) shape() string {
	set := map[string]bool{}
	for _, e := range cs.Entries {
		if isBaselineEntry(e) {
			if m := chartNameRe.FindStringSubmatch(e.Data); m != nil && m[1] != "x" {
				set["chartname="+nameShape(m[1])] = true
			}
			continue
		}
		if ns := nameShape(e.Name); ns != "plain" {
			for _, f := range strings.Split(ns, "+") {
				set[f] = true
			}
		}
		switch e.Type {
		case "symrel", "symdd", "symabs", "symfile":
			set["symlink-entry"] = true
		case "hard":
			set["hardlink-entry"] = true
		}
		if e.Route != "" {
			set["route-"+e.Route] = true
		}
	}
	var parts []string
	for f := range set {
		parts = append(parts, f)
	}
	sort.Strings(parts)
	return strings.Join(parts, "+")
}

// uncleanClass says what is wrong with an exposed name.
func uncleanClass(n string) string {
	switch {
	case n == "":
		return "empty"
	case strings.ContainsRune(n, '\\'):
		return "backslash"
	case strings.HasPrefix(n, "/"):
		return "absolute"
	}
	for _, c := range strings.Split(n, "/") {
		if c == ".." {
			return "dotdot"
		}
	}
	return "not-clean"
}

func (cs Case) stream(outsideAbs string) ([]byte, []span) {
	raw, spans := buildTar(cs.Entries, outsideAbs, !cs.NoEnd)
	if cs.Gz == "deflate" {
		var buf bytes.Buffer
		zw := gzip.NewWriter(&buf)
		zw.Write(raw)
		zw.Close()
		return buf.Bytes(), spans
	}
	return gzipStored(raw, 512), spans
}

var chartNameRe = regexp.MustCompile(`name: "(.*)"`)

var numRe = regexp.MustCompile(`[0-9]{4,}`)

// scrub removes run-specific parts (box path with pid, random temp suffixes).
func scrub(b *fsbox, s string) string {
	s = strings.ReplaceAll(s, b.Root, "$ROOT")
	return numRe.ReplaceAllString(s, "N")
}

func classifyErr(err error) string {
	if err == nil {
		return "ok"
	}
	m := err.Error()
	for _, p := range [][2]string{
		{"absolute paths", "abs"}, {"references parent", "parent"}, {"outside the base", "outside-base"},
		{"illegally named", "drive"}, {"chart yaml not in base", "yaml-base"}, {"larger than the maximum file size", "file-too-large"},
		{"larger than the maximum size", "total-too-large"}, {"no files in chart", "no-files"}, {"chart name not specified", "no-chart-name"},
		{"contains ':'", "colon"}, {"contains '..'", "dotdot"}, {"path is absolute", "abs"}, {"unknown type", "unknown-type"},
		{"unexpected EOF", "truncated"}, {"invalid tar header", "tar-header"}, {"gzip", "gzip"}, {"file exists", "exists"},
		{"not a directory", "notdir"}, {"is a directory", "isdir"}, {"no such file", "noent"}, {"already exists", "exists"},
		{"Chart.yaml file is missing", "no-chart-yaml"}, {"validation", "validation"}, {"cannot load", "bad-yaml"},
		{"too many levels", "loop"}, {"non-absolute URLs", "bad-ref"}, {"panic", "panic"},
	} {
		if strings.Contains(m, p[0]) {
			return "err:" + p[1]
		}
	}
	return "err:other"
}

// safely runs f and converts a panic into an error.
func safely(f func() error) (err error) {
	defer func() {
		if r := recover(); r != nil {
			err = fmt.Errorf("panic: %v", r)
		}
	}()
	return f()
}

// ---------- in-memory entry points (names + sizes) ----------

func runLoad(cs Case) result {
	var res result
	F, T := cs.FileLimit, cs.TotalLimit
	if F == 0 {
		F = defFile
	}
	if T == 0 {
		T = defTotal
	}
	loader.MaxDecompressedFileSize, loader.MaxDecompressedChartSize = F, T
	defer func() { loader.MaxDecompressedFileSize, loader.MaxDecompressedChartSize = defFile, defTotal }()
	gz, spans := cs.stream("/outside")
	cr := &countingReader{b: gz}
	var files []*loader.BufferedFile
	var ch *chart.Chart
	err := safely(func() error {
		var e error
		if cs.EP == "loadarchive" {
			ch, e = loader.LoadArchive(cr)
		} else {
			files, e = loader.LoadArchiveFiles(cr)
		}
		return e
	})
	res.Outcome = cs.EP + ":" + classifyErr(err)
	if err != nil {
		res.Err = err.Error()
	}
	// (1) exposed names
	if err == nil {
		var names []string
		for _, f := range files {
			names = append(names, f.Name)
		}
		var walk func(c *chart.Chart, depth int)
		walk = func(c *chart.Chart, depth int) {
			if c == nil || depth > 4 {
				return
			}
			for _, fs := range [][]*chart.File{c.Raw, c.Files, c.Templates} {
				for _, f := range fs {
					names = append(names, f.Name)
				}
			}
			for _, d := range c.Dependencies() {
				walk(d, depth+1)
			}
		}
		walk(ch, 0)
		res.FilesLoaded = len(names)
		for _, n := range names {
			if driveAbs(n) {
				res.DriveName = n
			}
			if !cleanRelSlash(n) {
				res.Viols = append(res.Viols, viol{
					Key:  cs.EP + "/unclean-name/" + uncleanClass(n),
					What: fmt.Sprintf("%s accepted the archive %v and exposes the file name %q, which is not a clean relative slash path", cs.EP, cs.Entries, n),
				})
				break
			}
		}
	}
	// (2) size limits: reference computed from the generated entries
	var declTotal, maxDecl int64
	for _, e := range cs.Entries {
		if e.Type == "dir" || e.Type == "xglob" {
			continue
		}
		sz := e.Size
		if e.Data != "" {
			sz = int64(len(e.Data))
		}
		if sz > maxDecl {
			maxDecl = sz
		}
		if sz > 0 {
			declTotal += sz
		}
	}
	if err == nil && (maxDecl > F || declTotal > T) {
		res.Viols = append(res.Viols, viol{
			Key:  cs.EP + "/oversize-accepted/" + overKind(maxDecl > F, declTotal > T),
			What: fmt.Sprintf("%s accepted an archive with largest file %d (limit %d) and total %d (limit %d): %s %v", cs.EP, maxDecl, F, declTotal, T, sizeShape(cs, F, T), short(cs.Entries)),
		})
	}
	if err == nil && cs.EP == "loadfiles" {
		var sum int64
		for _, f := range files {
			sum += int64(len(f.Data))
			if int64(len(f.Data)) > F {
				res.Viols = append(res.Viols, viol{Key: cs.EP + "/loaded-file-over-limit",
					What: fmt.Sprintf("loaded file %q has %d bytes, limit %d: %v", f.Name, len(f.Data), F, short(cs.Entries))})
			}
		}
		if sum > T {
			res.Viols = append(res.Viols, viol{Key: cs.EP + "/loaded-total-over-limit",
				What: fmt.Sprintf("loaded files total %d bytes, limit %d: %v", sum, T, short(cs.Entries))})
		}
	}
	// (3) bytes pulled: file-content bytes in the 512-byte chunks the decompressor touched
	if cs.Gz == "" {
		n := blocksPulled(cr.pos)
		if n > len(spans) {
			n = len(spans)
		}
		per := map[int]int64{}
		var total int64
		for _, sp := range spans[:n] {
			if sp.Content > 0 {
				per[sp.Entry] += int64(sp.Content)
				total += int64(sp.Content)
			}
		}
		res.BytesPulled, res.ContentBytes = int64(n)*512, total
		const slack = 511 // the consumer's last read may end inside a 512-byte gzip member
		if total > T+slack {
			res.Viols = append(res.Viols, viol{Key: cs.EP + "/read-beyond-total-limit",
				What: fmt.Sprintf("%s pulled %d file-content bytes out of the gzip stream, total limit is %d (+%d slack): %v", cs.EP, total, T, slack, short(cs.Entries))})
		}
		var eis []int
		for ei := range per {
			eis = append(eis, ei)
		}
		sort.Ints(eis)
		for _, ei := range eis {
			if per[ei] > F+slack {
				res.Viols = append(res.Viols, viol{Key: cs.EP + "/read-beyond-file-limit",
					What: fmt.Sprintf("%s pulled %d content bytes of entry %d, per-file limit is %d (+%d slack): %v", cs.EP, per[ei], ei, F, slack, short(cs.Entries))})
				break
			}
		}
	}
	return res
}

func overKind(file, total bool) string {
	switch {
	case file && total:
		return "file+total"
	case file:
		return "file"
	}
	return "total"
}

// short prints at most six entries.
func short(es []Entry) string {
	if len(es) <= 6 {
		return fmt.Sprint(es)
	}
	return fmt.Sprintf("%v ... (%d entries)", es[:6], len(es))
}

// sizeShape: description for size cases: per entry the size class relative to the limits.
func sizeShape(cs Case, F, T int64) string {
	var parts []string
	for _, e := range cs.Entries {
		sz := e.Size
		if e.Data != "" {
			sz = int64(len(e.Data))
		}
		cl := "small"
		switch {
		case sz < 0:
			cl = "neg"
		case sz == 0:
			cl = "0"
		case sz > T:
			cl = ">T"
		case sz > F:
			cl = ">F"
		case sz == F:
			cl = "=F"
		}
		if e.Actual >= 0 && e.Actual < sz {
			cl += "trunc"
		}
		s := e.Type + ":" + cl
		if e.SizeVia != "" {
			s += "@" + e.SizeVia
		}
		if e.Lead != "" {
			s += "~" + e.Lead
		}
		if len(parts) > 0 && strings.HasPrefix(parts[len(parts)-1], s) {
			if !strings.HasSuffix(parts[len(parts)-1], "*") {
				parts[len(parts)-1] += "*"
			}
			continue
		}
		parts = append(parts, s)
	}
	return strings.Join(parts, ",")
}

// ---------- filesystem entry points ----------

// runFS runs the case inside the box and applies the snapshot oracle.
func runFS(b *fsbox, cs Case) result {
	var res result
	if err := b.clean(); err != nil {
		return result{Outcome: "harness-error:" + err.Error()}
	}
	gz, _ := cs.stream(b.Outside())
	var allowed []string
	var call func() error
	switch cs.EP {
	case "expand":
		allowed = []string{"/box/dest"}
		call = func() error { return chartutil.Expand(b.Dest(), bytes.NewReader(gz)) }
	case "expandfile":
		allowed = []string{"/box/dest"}
		src := filepath.Join(b.Root, "src", "in.tgz")
		b.dirty = true
		os.MkdirAll(filepath.Dir(src), 0o755)
		os.WriteFile(src, gz, 0o644)
		call = func() error { return chartutil.ExpandFile(b.Dest(), src) }
	case "extract":
		allowed = []string{"/box/dest/x"}
		call = func() error {
			return (&installer.TarGzExtractor{}).Extract(bytes.NewBuffer(gz), filepath.Join(b.Dest(), "x"))
		}
	case "download":
		allowed = []string{"/box/dest"}
		call = func() error { return callDownload(b, cs, gz) }
	case "pull":
		allowed = []string{"/box/dest"}
		call = func() error { return callPull(b, cs, gz) }
	case "install":
		allowed = []string{"/box/dest/cache", "/box/dest/data"}
		b.dirty = true
		os.MkdirAll(filepath.Join(b.Dest(), "cache"), 0o755)
		os.MkdirAll(filepath.Join(b.Dest(), "data"), 0o755)
		call = func() error { return callInstall(b, cs, gz) }
	case "mgr":
		allowed = []string{"/box/dest"}
		b.dirty = true
		if err := cs.Mgr.setup(b); err != nil {
			return result{Outcome: "harness-error:" + err.Error()}
		}
		call = func() error { return cs.Mgr.call(b) }
	default:
		return result{Outcome: "harness-error:unknown ep " + cs.EP}
	}
	plants := layoutPlants(cs)
	if cs.EP == "install" {
		plants = installPlants(b, cs)
	}
	before := b.pristine
	if len(plants) > 0 || b.dirty {
		b.dirty = true
		if err := b.apply(plants); err != nil {
			return result{Outcome: "harness-error:layout " + scrub(b, err.Error())}
		}
		var err error
		before, err = snap(b.Root)
		if err != nil {
			return result{Outcome: "harness-error:snap " + scrub(b, err.Error())}
		}
	}
	cerr := safely(call)
	after, err := snap(b.Root)
	if err != nil {
		return result{Outcome: "harness-error:snap " + scrub(b, err.Error())}
	}
	if cerr != nil && strings.HasPrefix(cerr.Error(), "harness: ") {
		b.dirty = true
		return result{Outcome: "harness-error:" + cerr.Error()}
	}
	res.Outcome = cs.EP + ":" + classifyErr(cerr)
	if cerr != nil {
		res.Err = scrub(b, cerr.Error())
	}
	chs := diffSnap(before, after)
	if len(chs) > 0 {
		b.dirty = true
	}
	res.WroteInside = len(chs) > 0
	esc := escapes(chs, allowed)
	if len(esc) > 0 {
		// one violation per kind of escape
		seen := map[string]bool{}
		for _, c := range esc {
			where := "elsewhere"
			switch {
			case strings.HasPrefix(c.Path, "/box/outside"):
				where = "outside"
			case strings.HasPrefix(c.Path, "/box/dest"):
				where = "dest-sibling"
			case strings.HasPrefix(c.Path, "/box/"):
				where = "box"
			case strings.HasPrefix(c.Path, "/tmp/"):
				where = "tmpdir"
			case strings.Count(c.Path, "/") == 1:
				where = "parent-of-box"
			}
			k := c.Kind + "-" + where
			if seen[k] {
				continue
			}
			seen[k] = true
			res.Viols = append(res.Viols, viol{
				Key: cs.EP + "/escape/" + k + "/" + cs.keyTail(),
				What: fmt.Sprintf("%s (%s) %s %s [%s] outside the destination %v; result: %s", cs.EP, cs.describe(), c.Kind, scrub(b, c.Path), scrub(b, c.Desc),
					allowed, errString(res.Err)),
			})
		}
	}
	return res
}

func errString(s string) string {
	if s == "" {
		return "success"
	}
	return "error " + s
}

func (cs Case) keyTail() string {
	var parts []string
	if cs.Layout != "" && cs.Layout != "empty" && cs.Layout != "absent" {
		l := "layout=" + cs.Layout
		if cs.LinkAbs {
			l += "(abs)"
		}
		parts = append(parts, l)
	}
	if cs.URLPath != "" {
		parts = append(parts, "url="+urlShape(cs.URLPath))
	}
	if cs.Verify != "" && cs.Verify != "never" {
		parts = append(parts, "verify="+cs.Verify)
	}
	if cs.Mgr != nil {
		parts = append(parts, cs.Mgr.shape())
	}
	if s := cs.shape(); s != "" && cs.EP != "download" {
		parts = append(parts, s)
	}
	if len(parts) == 0 {
		return "baseline"
	}
	return strings.Join(parts, "/")
}

func (cs Case) describe() string {
	var parts []string
	if len(cs.Entries) > 0 && cs.EP != "download" {
		parts = append(parts, "entries "+short(cs.Entries))
	}
	if cs.Layout != "" {
		parts = append(parts, fmt.Sprintf("layout %s abs=%v", cs.Layout, cs.LinkAbs))
	}
	if cs.URLPath != "" {
		parts = append(parts, "url http://<host>"+cs.URLPath)
	}
	if cs.EP == "pull" {
		parts = append(parts, fmt.Sprintf("untardir %q", cs.UntarDir))
	}
	if cs.Verify != "" {
		parts = append(parts, "verify "+cs.Verify)
	}
	if cs.Mgr != nil {
		parts = append(parts, cs.Mgr.describe())
	}
	return strings.Join(parts, "; ")
}

// urlShape: the base name a path reduces to decides what happens.
func urlShape(p string) string {
	r := strings.NewReplacer("%2f", "/", "%2F", "/", "%2e", ".", "%2E", ".", "%5c", `\`, "%5C", `\`)
	d := r.Replace(p)
	base := filepath.Base(d)
	switch base {
	case ".", "..", "/":
		return "base=" + base
	}
	return "base=name"
}

// ---------- download / pull ----------

type memGetter struct{ data []byte }

func (g *memGetter) Get(_ string, _ ...getter.Option) (*bytes.Buffer, error) {
	return bytes.NewBuffer(append([]byte{}, g.data...)), nil
}

func callDownload(b *fsbox, cs Case, gz []byte) error {
	g := &memGetter{data: gz}
	dl := downloader.ChartDownloader{
		Out:              io.Discard,
		Getters:          getter.Providers{{Schemes: []string{"http"}, New: func(...getter.Option) (getter.Getter, error) { return g, nil }}},
		RepositoryConfig: filepath.Join(b.Root, "norepo", "repositories.yaml"),
		RepositoryCache:  filepath.Join(b.Root, "norepo", "cache"),
	}
	if cs.Verify == "later" {
		dl.Verify = downloader.VerifyLater
	}
	_, _, err := dl.DownloadTo("http://charts.invalid"+cs.URLPath, "", b.Dest())
	return err
}

var (
	srvOnce sync.Once
	srv     *httptest.Server
	srvMu   sync.Mutex
	srvData []byte
	srvErr  error
)

func server() (*httptest.Server, error) {
	srvOnce.Do(func() {
		defer func() {
			if r := recover(); r != nil {
				srvErr = fmt.Errorf("cannot listen on loopback: %v", r)
			}
		}()
		srv = httptest.NewServer(http.HandlerFunc(func(w http.ResponseWriter, _ *http.Request) {
			srvMu.Lock()
			d := srvData
			srvMu.Unlock()
			w.Header().Set("Content-Type", "application/gzip")
			w.Write(d)
		}))
	})
	return srv, srvErr
}

func callPull(b *fsbox, cs Case, gz []byte) error {
	s, err := server()
	if err != nil {
		return fmt.Errorf("harness: %v", err)
	}
	srvMu.Lock()
	srvData = gz
	srvMu.Unlock()
	os.Setenv("TMPDIR", b.Tmp())
	defer os.Unsetenv("TMPDIR")
	settings := &cli.EnvSettings{
		RepositoryConfig: filepath.Join(b.Root, "norepo", "repositories.yaml"),
		RepositoryCache:  filepath.Join(b.Root, "norepo", "cache"),
		PluginsDirectory: filepath.Join(b.Root, "norepo", "plugins"),
	}
	p := action.NewPull(action.WithConfig(&action.Configuration{}))
	p.Settings = settings
	p.Untar = true
	p.UntarDir = cs.UntarDir
	p.DestDir = b.Dest()
	_, err = p.Run(s.URL + cs.URLPath)
	return err
}

// ---------- plugin install over HTTP ----------

const pluginURLPath = "/p-1.0.0.tgz"

func installEnv(b *fsbox) func() {
	os.Setenv("HELM_CACHE_HOME", filepath.Join(b.Dest(), "cache"))
	os.Setenv("HELM_DATA_HOME", filepath.Join(b.Dest(), "data"))
	os.Setenv("HELM_CONFIG_HOME", filepath.Join(b.Dest(), "data", "config"))
	os.Unsetenv("HELM_PLUGINS")
	return func() {
		os.Unsetenv("HELM_CACHE_HOME")
		os.Unsetenv("HELM_DATA_HOME")
		os.Unsetenv("HELM_CONFIG_HOME")
	}
}

var installLayouts = []string{"empty", "cache-sub-symdir", "cache-file-symfile", "cache-file-dangling", "cache-sub-file", "plugin-symdir", "plugin-dangling"}

func installPlants(b *fsbox, cs Case) []plant {
	s, err := server()
	if err != nil {
		return nil
	}
	key, _ := cache.Key(s.URL + pluginURLPath)
	cd := "dest/cache/plugins/" + key
	sym := func(path, target string) plant {
		return plant{Path: path, Kind: "symlink", Target: target, Abs: cs.LinkAbs}
	}
	switch cs.Layout {
	case "cache-sub-symdir":
		return []plant{{Path: cd, Kind: "dir"}, sym(cd+"/a", "outside/dir")}
	case "cache-file-symfile":
		return []plant{{Path: cd, Kind: "dir"}, sym(cd+"/a", "outside/secret"), sym(cd+"/b", "outside/secret"), sym(cd+"/plugin.yaml", "outside/secret")}
	case "cache-file-dangling":
		return []plant{{Path: cd, Kind: "dir"}, sym(cd+"/a", "outside/new"), sym(cd+"/b", "outside/new"), sym(cd+"/plugin.yaml", "outside/new")}
	case "cache-sub-file":
		return []plant{{Path: cd, Kind: "dir"}, {Path: cd + "/a", Kind: "file", Data: "f\n"}}
	case "plugin-symdir":
		return []plant{sym("dest/data/plugins/p", "outside/dir")}
	case "plugin-dangling":
		return []plant{sym("dest/data/plugins/p", "outside/newdir")}
	}
	return nil
}

func callInstall(b *fsbox, cs Case, gz []byte) error {
	s, err := server()
	if err != nil {
		return fmt.Errorf("harness: %v", err)
	}
	srvMu.Lock()
	srvData = gz
	srvMu.Unlock()
	defer installEnv(b)()
	i, err := installer.NewHTTPInstaller(s.URL + pluginURLPath)
	if err != nil {
		return err
	}
	return installer.Install(i)
}
