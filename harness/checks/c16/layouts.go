package c16

// Destination layouts: what already exists below the destination before Helm
// is called. Every symlink points to something under box/outside; LinkAbs
// chooses an absolute or a relative link target.

var expandLayouts = []string{"empty", "top-symdir", "top-dangling", "top-file", "nested-symdir", "file-symfile", "file-dangling", "sub-symdir", "sub-dangling-dir", "sub-file"}
var extractLayouts = []string{"absent", "empty", "file-symfile", "file-dangling", "sub-symdir", "sub-dangling-dir", "sub-file", "target-file"}
var downloadLayouts = []string{"empty", "name-symfile", "name-dangling", "name-dir"}

func layoutPlants(cs Case) []plant {
	abs := cs.LinkAbs
	sym := func(path, target string) plant {
		return plant{Path: path, Kind: "symlink", Target: target, Abs: abs}
	}
	var ps []plant
	switch cs.EP {
	case "expand", "expandfile", "pull":
		base := "dest/"
		if cs.EP == "pull" && cs.UntarDir != "" {
			base = "dest/" + cs.UntarDir + "/"
		}
		// directories a chart named x, ../x, /abs or a/b lands in
		chartDirs := []string{base + "x", base + "abs", base + "a/b"}
		tops := []string{base + "x", base + "abs", base + "a"}
		switch cs.Layout {
		case "top-symdir":
			for _, t := range tops {
				ps = append(ps, sym(t, "outside/dir"))
			}
		case "top-dangling":
			for _, t := range tops {
				ps = append(ps, sym(t, "outside/new"))
			}
		case "top-file":
			for _, t := range tops {
				ps = append(ps, plant{Path: t, Kind: "file", Data: "i am a file\n"})
			}
		case "nested-symdir":
			ps = append(ps, plant{Path: base + "a", Kind: "dir"}, sym(base+"a/b", "outside/dir"))
		case "file-symfile", "file-dangling":
			tgt := "outside/secret"
			if cs.Layout == "file-dangling" {
				tgt = "outside/new"
			}
			for _, d := range chartDirs {
				ps = append(ps, plant{Path: d, Kind: "dir"})
				for _, f := range []string{"Chart.yaml", "a", "b", "c:"} {
					ps = append(ps, sym(d+"/"+f, tgt))
				}
			}
		case "sub-symdir", "sub-dangling-dir":
			tgt := "outside/dir"
			if cs.Layout == "sub-dangling-dir" {
				tgt = "outside/newdir"
			}
			for _, d := range chartDirs {
				ps = append(ps, plant{Path: d, Kind: "dir"}, sym(d+"/a", tgt), sym(d+"/templates", tgt))
			}
		case "sub-file":
			for _, d := range chartDirs {
				ps = append(ps, plant{Path: d, Kind: "dir"}, plant{Path: d + "/a", Kind: "file", Data: "f\n"}, plant{Path: d + "/templates", Kind: "file", Data: "f\n"})
			}
		}
	case "extract":
		d := "dest/x"
		switch cs.Layout {
		case "empty":
			ps = append(ps, plant{Path: d, Kind: "dir"})
		case "file-symfile", "file-dangling":
			tgt := "outside/secret"
			if cs.Layout == "file-dangling" {
				tgt = "outside/new"
			}
			ps = append(ps, plant{Path: d, Kind: "dir"})
			for _, f := range []string{"plugin.yaml", "a", "b"} {
				ps = append(ps, sym(d+"/"+f, tgt))
			}
		case "sub-symdir", "sub-dangling-dir":
			tgt := "outside/dir"
			if cs.Layout == "sub-dangling-dir" {
				tgt = "outside/newdir"
			}
			ps = append(ps, plant{Path: d, Kind: "dir"}, sym(d+"/a", tgt))
		case "sub-file":
			ps = append(ps, plant{Path: d, Kind: "dir"}, plant{Path: d + "/a", Kind: "file", Data: "f\n"})
		case "target-file":
			ps = append(ps, plant{Path: d, Kind: "file", Data: "f\n"})
		}
	case "download":
		switch cs.Layout {
		case "name-symfile":
			ps = append(ps, sym("dest/x.tgz", "outside/secret"), sym("dest/x.tgz.prov", "outside/secret"))
		case "name-dangling":
			ps = append(ps, sym("dest/x.tgz", "outside/new"), sym("dest/x.tgz.prov", "outside/new2"))
		case "name-dir":
			ps = append(ps, plant{Path: "dest/x.tgz", Kind: "dir"}, plant{Path: "dest/x.tgz.prov", Kind: "dir"})
		}
	}
	return ps
}
