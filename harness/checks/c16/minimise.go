package c16

import "strings"

// violation class = key up to and including the escape kind ("ep/escape/created-outside", "ep/unclean-name", ...)
func vclass(key string) string {
	parts := strings.Split(key, "/")
	if len(parts) >= 3 && parts[1] == "escape" {
		return strings.Join(parts[:3], "/")
	}
	if len(parts) >= 2 {
		return strings.Join(parts[:2], "/")
	}
	return key
}

func runAny(b *fsbox, cs Case) result {
	if cs.EP == "loadfiles" || cs.EP == "loadarchive" {
		return runLoad(cs)
	}
	return runFS(b, cs)
}

func isBaselineEntry(e Entry) bool {
	return e.Data != "" && e.Route == "" && (e.Name == "x/Chart.yaml" || e.Name == "x/templates/t.yaml" || e.Name == "plugin.yaml")
}

// minimise greedily resets every dimension of a failing case to its simplest
// value as long as a violation of the same class remains (deterministic).
func minimise(b *fsbox, cs Case, class string) Case {
	fails := func(x Case) bool {
		for _, v := range runAny(b, x).Viols {
			if vclass(v.Key) == class {
				return true
			}
		}
		return false
	}
	cur := cs
	try := func(x Case) {
		if x.canon() != cur.canon() && fails(x) {
			cur = x
		}
	}
	if cur.Layout != "" {
		x := cur
		x.LinkAbs = false
		try(x)
		x = cur
		x.LinkAbs = false
		switch x.EP {
		case "extract":
			x.Layout = "absent"
		case "install":
			x.Layout = "empty"
		default:
			x.Layout = "empty"
		}
		try(x)
	}
	if cur.Verify != "" {
		x := cur
		x.Verify = "never"
		try(x)
	}
	if cur.UntarDir != "" {
		x := cur
		x.UntarDir = ""
		try(x)
	}
	if cur.Gz != "" && cur.EP != "expandfile" && cur.EP != "pull" {
		x := cur
		x.Gz = ""
		try(x)
	}
	if cur.Mgr != nil {
		for _, mod := range []func(*MgrCase){
			func(m *MgrCase) { m.Skip = true }, func(m *MgrCase) { m.Abs = false }, func(m *MgrCase) { m.Op = "update" },
			func(m *MgrCase) { m.Ignore = false }, func(m *MgrCase) { m.Plant = "sym-secret" },
		} {
			x := cur
			m := *cur.Mgr
			mod(&m)
			x.Mgr = &m
			try(x)
		}
	}
	// chart name back to x
	for i, e := range cur.Entries {
		if e.Name == "x/Chart.yaml" && e.Data != chartYAML("x") {
			x := cur
			x.Entries = append([]Entry{}, cur.Entries...)
			x.Entries[i].Data = chartYAML("x")
			try(x)
		}
	}
	// long entry lists: halve first
	for len(cur.Entries) > 12 {
		h := len(cur.Entries) / 2
		a, b2 := cur, cur
		a.Entries = append([]Entry{}, cur.Entries[:h]...)
		b2.Entries = append([]Entry{}, cur.Entries[h:]...)
		if fails(a) {
			cur = a
		} else if fails(b2) {
			cur = b2
		} else {
			break
		}
	}
	// drop non-baseline entries one at a time (from the end), then baseline ones for the in-memory loaders
	for i := len(cur.Entries) - 1; i >= 0 && len(cur.Entries) > 1 && len(cur.Entries) <= 64; i-- {
		if i >= len(cur.Entries) {
			continue
		}
		if isBaselineEntry(cur.Entries[i]) && cur.EP != "loadfiles" {
			continue
		}
		x := cur
		x.Entries = append(append([]Entry{}, cur.Entries[:i]...), cur.Entries[i+1:]...)
		try(x)
	}
	// plain regular file instead of a special type
	for i, e := range cur.Entries {
		if e.Type != "reg" && !isBaselineEntry(e) {
			x := cur
			x.Entries = append([]Entry{}, cur.Entries...)
			x.Entries[i].Type = "reg"
			if x.Entries[i].Size == 0 {
				x.Entries[i].Data = "payload\n"
			}
			try(x)
		}
	}
	// no BOM lead
	for i, e := range cur.Entries {
		if e.Lead != "" {
			x := cur
			x.Entries = append([]Entry{}, cur.Entries...)
			x.Entries[i].Lead = ""
			try(x)
		}
	}
	// simplest delivery route
	for i, e := range cur.Entries {
		if e.Route != "" {
			x := cur
			x.Entries = append([]Entry{}, cur.Entries...)
			x.Entries[i].Route = ""
			try(x)
		}
	}
	return cur
}
