// Package c01: the release revision ledger stays well-formed under any
// history and faults. Explicit-state search over operation histories on the
// real actions, with every single fault / process-death placement.
package c01

import (
	"encoding/json"
	"fmt"
	"regexp"
	"sort"
	"strings"

	rspb "helm.sh/helm/v4/pkg/release/v1"

	"verif/harness/internal/core"
	"verif/harness/internal/hx"
	"verif/harness/internal/opspace"
	"verif/harness/internal/sim"
)

const prop = "C01"

func init() {
	core.Register(&core.Check{
		ID:    prop,
		Level: "model_checking",
		Rule: "BFS over canonical world states (cluster objects + decoded release records, timestamps dropped); alphabet = install/upgrade/rollback/uninstall x flags x 3 charts; " +
			"every transition is the real action run on a clone of the state, fault-free and once per (faultable call, fault kind) discovered from the fault-free run " +
			"(reject / wait-fail / store-fail / process death before a mutating call); distinct = canonical (state, step) pairs",
		Run:    run,
		Replay: replay,
		Assumptions: []string{
			"simulated API server (no admission, defaulting, resourceVersion conflicts); readiness and hook completion are scripted (success unless faulted)",
			"charts have at most one resource per kind so that the order of requests inside one operation is deterministic",
			"storage reads are never failed (the quantifier names write failures); process death is emulated as: from the chosen call on, every call fails without effect",
			"process death is explored on the Secret and ConfigMap backends only (the memory backend has no persistent state)",
		},
		RequiredFloors: []string{"status:deployed", "status:superseded", "status:failed", "status:uninstalled", "status:pending-install", "status:pending-upgrade",
			"status:pending-rollback", "status:uninstalling", "pruned", "prune-kept-deployed", "crash-state", "rollback-ok", "purge-ok"},
	})
}

var (
	chartA = &hx.ChartSpec{Name: "c", Version: "1", Resources: []hx.ResSpec{{Kind: "ConfigMap", Name: "a", Variant: 1}, {Kind: "Service", Name: "s", Variant: 1}}}
	chartB = &hx.ChartSpec{Name: "c", Version: "2", Resources: []hx.ResSpec{{Kind: "ConfigMap", Name: "a", Variant: 2}, {Kind: "Secret", Name: "x", Variant: 1}}}
	chartH = &hx.ChartSpec{Name: "c", Version: "3", Resources: []hx.ResSpec{{Kind: "ConfigMap", Name: "a", Variant: 1}, {Kind: "Service", Name: "s", Variant: 1}},
		Hooks: []hx.HookSpec{
			{Name: "hpre", Kind: "ConfigMap", Events: []string{"pre-install", "pre-upgrade", "pre-rollback", "pre-delete"}, Weight: 0},
			{Name: "hpost", Kind: "Job", Events: []string{"post-install", "post-upgrade", "post-rollback", "post-delete"}, Weight: 0, Policies: []string{"hook-succeeded"}},
		}}
)

func alphabet(thorough bool) []hx.Op {
	ops := []hx.Op{
		{Kind: "install", Chart: chartA},
		{Kind: "install", Chart: chartA, Atomic: true},
		{Kind: "install", Chart: chartB, Replace: true},
		{Kind: "install", Chart: chartH},
		{Kind: "upgrade", Chart: chartB},
		{Kind: "upgrade", Chart: chartA, Atomic: true},
		{Kind: "upgrade", Chart: chartB, CleanupOnFail: true},
		{Kind: "upgrade", Chart: chartA, MaxHistory: 2},
		{Kind: "upgrade", Chart: chartB, MaxHistory: 2, Atomic: true},
		{Kind: "upgrade", Chart: chartH},
		{Kind: "rollback", Version: 0},
		{Kind: "rollback", Version: 1},
		{Kind: "rollback", Version: 0, MaxHistory: 2},
		{Kind: "uninstall"},
		{Kind: "uninstall", KeepHistory: true},
	}
	if thorough {
		ops = append(ops,
			hx.Op{Kind: "install", Chart: chartH, DisableHooks: true},
			hx.Op{Kind: "install", Chart: chartH, Replace: true, Atomic: true},
			hx.Op{Kind: "upgrade", Chart: chartH, DisableHooks: true},
			hx.Op{Kind: "upgrade", Chart: chartB, MaxHistory: 1},
			hx.Op{Kind: "upgrade", Chart: chartA, MaxHistory: 3, Atomic: true},
			hx.Op{Kind: "rollback", Version: 0, CleanupOnFail: true},
			hx.Op{Kind: "rollback", Version: 2},
			hx.Op{Kind: "uninstall", DisableHooks: true},
		)
	}
	return ops
}

func config(tier string) *opspace.Config {
	thorough := tier == "thorough"
	ops := alphabet(thorough)
	cfg := &opspace.Config{
		Property: prop,
		Drivers:  hx.Drivers,
		Inits:    []string{"empty", "seeded11", "pruned", "failed-kept"},
		MakeInit: func(drv, init string) *hx.World {
			w := hx.NewWorld(drv)
			if init == "pruned" {
				// the low revisions are gone: (2:superseded 3:deployed) after two upgrades with a history limit of 2
				w.Exec(hx.Op{Kind: "install", Release: "r", Chart: chartA}, nil)
				w.Exec(hx.Op{Kind: "upgrade", Release: "r", Chart: chartB, MaxHistory: 2}, nil)
				w.Exec(hx.Op{Kind: "upgrade", Release: "r", Chart: chartA, MaxHistory: 2}, nil)
			}
			if init == "failed-kept" {
				// (1:deployed 2:uninstalled): a failed upgrade whose revision was then uninstalled with --keep-history
				w.Exec(hx.Op{Kind: "install", Release: "r", Chart: chartA}, nil)
				w.Exec(hx.Op{Kind: "upgrade", Release: "r", Chart: chartB}, &sim.Fault{Label: "PATCH configmaps/a", Occurrence: 0, Kind: "reject"})
				w.Exec(hx.Op{Kind: "uninstall", Release: "r", KeepHistory: true}, nil)
			}
			if init == "seeded11" {
				// two-digit revisions: the Kubernetes backends list records in name order (v1, v10, v11, v2, ...)
				w.Exec(hx.Op{Kind: "install", Release: "r", Chart: chartA}, nil)
				for i := 0; i < 10; i++ {
					ch := chartB
					if i%2 == 1 {
						ch = chartA
					}
					w.Exec(hx.Op{Kind: "upgrade", Release: "r", Chart: ch}, nil)
				}
			}
			if init == "seeded5" {
				// a 5-revision history produced by real operations
				w.Exec(hx.Op{Kind: "install", Release: "r", Chart: chartA}, nil)
				for i := 0; i < 4; i++ {
					ch := chartB
					if i%2 == 1 {
						ch = chartA
					}
					w.Exec(hx.Op{Kind: "upgrade", Release: "r", Chart: ch}, nil)
				}
			}
			return w
		},
		Alphabet: func(_ *hx.World, hist []*rspb.Release, _ []opspace.Step) []opspace.Step {
			var out []opspace.Step
			if len(hist) >= 9 {
				// long seeded history: the operations that prune
				for _, o := range []hx.Op{
					{Kind: "upgrade", Chart: chartB, MaxHistory: 10}, {Kind: "upgrade", Chart: chartA, MaxHistory: 3},
					{Kind: "rollback", Version: 0, MaxHistory: 10}, {Kind: "rollback", Version: 0, MaxHistory: 5},
					{Kind: "upgrade", Chart: chartB, MaxHistory: 10, Atomic: true},
					{Kind: "uninstall", KeepHistory: true}, {Kind: "uninstall"},
				} {
					out = append(out, opspace.Step{Op: o})
				}
				return out
			}
			for _, o := range ops {
				out = append(out, opspace.Step{Op: o})
			}
			return out
		},
		DepthFor: func(init string) int {
			if init == "seeded11" || init == "pruned" || init == "failed-kept" {
				return 2
			}
			return 0
		},
		MaxDepth:  3,
		MaxFaulty: 1,
		FaultKinds: func(drv string, _ hx.Op, call sim.Call) []string {
			var ks []string
			switch call.Class {
			case "cluster":
				ks = append(ks, "reject")
			case "wait":
				ks = append(ks, "wait-fail")
			case "record-write", "store-write":
				ks = append(ks, "store-fail")
			}
			if drv != "memory" && call.Mutating {
				ks = append(ks, "crash")
			}
			return ks
		},
		Check: check,
		Expand: func(t *opspace.Transition) bool {
			// do not search on from a state whose ledger is already broken
			return len(deployedOf(t.PostHist)) <= 1
		},
	}
	if thorough {
		cfg.Inits = []string{"empty", "seeded11", "pruned", "failed-kept", "seeded5"}
		cfg.MaxDepth = 3
		cfg.MaxFaulty = 1
	}
	return cfg
}

// thoroughExtra are the additional searches of the thorough tier: (B) two
// faulty operations back to back and (C) fault-free histories of depth 4, both
// over the quick alphabet from the empty state.
func thoroughExtra() []*opspace.Config {
	b := config("quick")
	b.Inits, b.DepthFor = []string{"empty"}, nil
	b.MaxDepth, b.MaxFaulty = 2, 2
	cc := config("quick")
	cc.Inits, cc.DepthFor = []string{"empty"}, nil
	cc.MaxDepth, cc.MaxFaulty, cc.FaultKinds = 4, 0, nil
	return []*opspace.Config{b, cc}
}

func run(c *core.Ctx) {
	cfg := config(c.Tier)
	cfg.Run(c)
	if c.Thorough() {
		for _, x := range thoroughExtra() {
			x.Run(c)
		}
	}
}

type replayData struct {
	opspace.Replay
	Key  string `json:"key"`
	Tier string `json:"tier"`
}

func replay(c *core.Ctx, data json.RawMessage) []core.Violation {
	var rd replayData
	if err := json.Unmarshal(data, &rd); err != nil {
		return nil
	}
	cfg := config(rd.Tier)
	cfg.ReplayPath(c, rd.Replay)
	return core.FilterKey(c.TakeViolations(), rd.Key)
}

var revRe = regexp.MustCompile(`\.v(\d+)$`)

// normLabel makes a fault's call label independent of absolute revision
// numbers and of the backend's resource name.
func normLabel(label string, maxPre int) string {
	l := label
	for _, p := range []string{"POST secrets/", "PUT secrets/", "DELETE secrets/", "POST configmaps/", "PUT configmaps/", "DELETE configmaps/"} {
		if strings.HasPrefix(l, p+sim.RecordPrefix) {
			verb := strings.Fields(p)[0]
			l = map[string]string{"POST": "store:Create ", "PUT": "store:Update ", "DELETE": "store:Delete "}[verb] + strings.TrimPrefix(l, p+sim.RecordPrefix)
		}
	}
	if m := revRe.FindStringSubmatch(l); m != nil && strings.HasPrefix(l, "store:") {
		var n int
		fmt.Sscan(m[1], &n)
		rel := "old"
		switch {
		case n == maxPre+1:
			rel = "new"
		case n == maxPre+2:
			rel = "new+1"
		case n == maxPre:
			rel = "last"
		}
		l = revRe.ReplaceAllString(l, ".<"+rel+">")
	}
	return l
}

func lastTwo(h []*rspb.Release) string {
	var s []string
	for i := len(h) - 2; i < len(h); i++ {
		if i >= 0 {
			s = append(s, h[i].Info.Status.String())
		}
	}
	if len(h) > 2 {
		return "…," + strings.Join(s, ",")
	}
	return strings.Join(s, ",")
}

func maxRev(h []*rspb.Release) int {
	m := 0
	for _, r := range h {
		if r.Version > m {
			m = r.Version
		}
	}
	return m
}

func deployedOf(h []*rspb.Release) []*rspb.Release {
	var out []*rspb.Release
	for _, r := range h {
		if r.Info.Status == rspb.StatusDeployed {
			out = append(out, r)
		}
	}
	return out
}

func find(h []*rspb.Release, v int) *rspb.Release {
	for _, r := range h {
		if r.Version == v {
			return r
		}
	}
	return nil
}

func check(c *core.Ctx, t *opspace.Transition) {
	if t.Step.Env != nil {
		return
	}
	op, res := t.Step.Op, t.Res
	pre, post := t.PreHist, t.PostHist
	mp := maxRev(pre)
	faultClass := "none"
	if t.Step.Fault != nil {
		faultClass = t.Step.Fault.Kind + "@" + normLabel(t.Step.Fault.Label, mp)
	}
	opClass := op.Kind
	if op.Replace {
		opClass += "[replace]"
	}
	preClass := "empty"
	if len(pre) > 0 {
		preClass = fmt.Sprintf("last=%s,deployed=%d", pre[len(pre)-1].Info.Status, len(deployedOf(pre)))
	}
	if len(deployedOf(pre)) > 1 {
		// the ledger was already broken by an earlier (reported) transition:
		// consequences are not separate findings
		return
	}
	violate := func(inv, what string) {
		pc := "|pre:" + preClass
		if inv == "T2-deployed" || inv == "T2-uninstalled" {
			// the final "-> deployed" / "-> uninstalled" write being only logged does not depend on the ledger shape
			pc = ""
		}
		key := core.SanitizeKey(fmt.Sprintf("%s|%s|%s|fault=%s%s", inv, t.Driver, opClass, faultClass, pc))
		c.Violate(prop, key, fmt.Sprintf("%s: %s [driver=%s history=%v pre=(%s) post=(%s) err=%q]", inv, what, t.Driver, opspace.PathStrings(t.Path), hx.StatusVector(pre), hx.StatusVector(post), res.Err),
			replayData{Replay: opspace.Replay{Driver: t.Driver, Init: t.Init, Path: t.Path}, Key: key, Tier: c.Tier})
	}
	// vacuity floors + outcome statistics
	for _, r := range post {
		c.Floor("status:" + r.Info.Status.String())
	}
	if res.Crashed {
		c.Floor("crash-state")
	}
	c.Outcome(op.Kind + ":" + res.ErrClass() + ":" + strings.SplitN(faultClass, "@", 2)[0])
	c.Distinct(t.Pre.Canon() + "|" + t.Step.String())
	if t.Depth == 3 && t.Faulty == 1 && !res.Failed {
		c.Sample(map[string]any{"driver": t.Driver, "history": opspace.PathStrings(t.Path), "ledger_after": hx.StatusVector(post)})
	}

	// I1: unique, strictly increasing revisions
	seen := map[int]bool{}
	for i, r := range post {
		if seen[r.Version] {
			violate("I1-unique", fmt.Sprintf("revision %d stored twice", r.Version))
		}
		seen[r.Version] = true
		if i > 0 && post[i-1].Version >= r.Version {
			violate("I1-increasing", "revisions not strictly increasing")
		}
		if r.Version <= 0 {
			violate("I1-positive", fmt.Sprintf("revision %d", r.Version))
		}
	}
	// I2: at most one deployed
	if d := deployedOf(post); len(d) > 1 {
		violate("I2-one-deployed", fmt.Sprintf("%d revisions are marked deployed", len(d)))
	}
	// T1: new revisions are consecutive from max(pre)+1
	var created []int
	for _, r := range post {
		if find(pre, r.Version) == nil {
			created = append(created, r.Version)
		}
	}
	sort.Ints(created)
	// every record creation of the operation, in order (a revision may be created and pruned again within
	// one operation, e.g. the failed revision of an atomic upgrade with a history limit)
	var createdInOp []int
	for _, e := range res.Log {
		if e.Applied && ((e.Class == "record-write" && e.Verb == "POST") || (e.Class == "store-write" && strings.HasPrefix(e.Label, "store:Create "))) {
			var n int
			fmt.Sscan(e.Label[strings.LastIndex(e.Label, ".v")+2:], &n)
			createdInOp = append(createdInOp, n)
		}
	}
	for i, v := range createdInOp {
		if v != mp+1+i {
			violate("T1-next-revision", fmt.Sprintf("created revision %d (creations of this operation: %v), highest existing was %d", v, createdInOp, mp))
			break
		}
	}
	for _, v := range created {
		ok := false
		for _, w := range createdInOp {
			ok = ok || v == w
		}
		if !ok {
			violate("T1-unexplained-revision", fmt.Sprintf("revision %d appeared without a record creation by this operation", v))
		}
	}
	// T2: success post-conditions
	if !res.Failed && !res.Crashed {
		switch op.Kind {
		case "install", "upgrade", "rollback":
			if len(created) == 0 {
				violate("T2-created", "operation reported success but created no revision")
				break
			}
			top := post[len(post)-1]
			newest := created[len(created)-1]
			if top.Version != newest {
				violate("T2-highest", fmt.Sprintf("created revision %d is not the highest (%d)", newest, top.Version))
			}
			if nr := find(post, newest); nr != nil && nr.Info.Status != rspb.StatusDeployed {
				violate("T2-deployed", fmt.Sprintf("operation reported success but revision %d is %s", newest, nr.Info.Status))
			}
			for _, d := range deployedOf(pre) {
				if len(deployedOf(post)) > 1 {
					break // already reported as I2-one-deployed
				}
				if r := find(post, d.Version); r != nil && r.Info.Status != rspb.StatusSuperseded {
					violate("T2-superseded", fmt.Sprintf("earlier deployed revision %d is now %s, not superseded", d.Version, r.Info.Status))
				}
			}
			if op.Kind == "rollback" {
				c.Floor("rollback-ok")
				tv := op.Version
				if tv == 0 {
					tv = mp - 1
				}
				tgt, nr := find(pre, tv), find(post, newest)
				if tgt != nil && nr != nil {
					if nr.Manifest != tgt.Manifest || fmt.Sprint(nr.Config) != fmt.Sprint(tgt.Config) || hx.Summarise(nr).Chart != hx.Summarise(tgt).Chart {
						violate("T2-rollback-content", fmt.Sprintf("revision %d does not carry chart/values/manifest of target %d", newest, tv))
					}
				}
			}
		case "uninstall":
			if !op.KeepHistory {
				c.Floor("purge-ok")
				if len(post) != 0 {
					violate("T2-purged", fmt.Sprintf("uninstall without keep-history reported success but %d revisions remain", len(post)))
				}
			} else if len(post) > 0 && post[len(post)-1].Info.Status != rspb.StatusUninstalled {
				violate("T2-uninstalled", "uninstall --keep-history succeeded but last revision is "+post[len(post)-1].Info.Status.String())
			}
		}
	}
	// T3: pruning
	if op.MaxHistory > 0 {
		var removed []int
		for _, r := range pre {
			if find(post, r.Version) == nil {
				removed = append(removed, r.Version)
			}
		}
		dep := deployedOf(pre)
		depV := -1
		if len(dep) > 0 {
			depV = dep[len(dep)-1].Version
		}
		if len(removed) > 0 {
			c.Floor("pruned")
			// a revision whose own delete was the injected fault cannot be removed: it is not a candidate
			failedDelete := -1
			if f := t.Step.Fault; f != nil && (f.Kind == "store-fail" || f.Kind == "crash") {
				if m := revRe.FindStringSubmatch(f.Label); m != nil && (strings.HasPrefix(f.Label, "DELETE ") || strings.HasPrefix(f.Label, "store:Delete ")) {
					fmt.Sscan(m[1], &failedDelete)
				}
			}
			var cand []int
			for _, r := range pre {
				if r.Version != depV && r.Version != failedDelete {
					cand = append(cand, r.Version)
				}
			}
			for i, v := range removed {
				if v == depV {
					violate("T3-deployed-pruned", fmt.Sprintf("pruning removed the deployed revision %d", v))
				} else if i >= len(cand) || cand[i] != v {
					violate("T3-oldest-first", fmt.Sprintf("pruning removed %v, which is not a prefix of the oldest non-deployed revisions %v", removed, cand))
					break
				}
			}
			if depV >= 0 && depV < removed[len(removed)-1] {
				c.Floor("prune-kept-deployed")
			}
		}
		storeFault := t.Step.Fault != nil && (t.Step.Fault.Kind == "store-fail" || t.Step.Fault.Kind == "crash")
		if len(created) > 0 && !storeFault {
			n := op.MaxHistory
			keptPre := 0
			for _, r := range post {
				if find(pre, r.Version) != nil && r.Version != depV {
					keptPre++
				}
			}
			if len(post) > n && !(len(post) == n+1 && keptPre == 0 && depV >= 0 && find(post, depV) != nil) {
				violate("T3-limit", fmt.Sprintf("history limit %d but %d revisions remain", n, len(post)))
			}
		}
	}
}
