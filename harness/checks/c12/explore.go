package c12

import (
	"encoding/json"
	"fmt"
	"strings"

	rspb "helm.sh/helm/v4/pkg/release/v1"

	"verif/harness/internal/core"
	"verif/harness/internal/hx"
	"verif/harness/internal/opspace"
	"verif/harness/internal/sim"
)

// runsAtInstall: every hook of the set is attached to an install event, so a
// stale object is met by the very first operation.
func runsAtInstall(hooks []hx.HookSpec) bool {
	for _, h := range hooks {
		if !has(h.Events, "pre-install") && !has(h.Events, "post-install") {
			return false
		}
	}
	return true
}

// config builds the search for one (hook set, initial cluster).
func config(tier string, hooks []hx.HookSpec, init string, drivers []string, depthCap int) *opspace.Config {
	thorough := tier == "thorough"
	c1, c2 := charts(hooks)
	hookCall := func(label string) string {
		for _, h := range hooks {
			if label == "POST "+resourceOfKind[h.Kind]+"/"+h.Name {
				return "reject"
			}
			if label == "wait:WatchUntilReady "+h.Name {
				return "wait-fail"
			}
		}
		return ""
	}
	both := func(ops ...hx.Op) []opspace.Step {
		var out []opspace.Step
		for _, o := range ops {
			out = append(out, opspace.Step{Op: o})
		}
		for _, o := range ops {
			o.DisableHooks = true
			out = append(out, opspace.Step{Op: o})
		}
		return out
	}
	maxDepth := 4
	if init != "clean" && runsAtInstall(hooks) {
		// the stale object is consumed (deleted or collided with) by the first
		// operation; later operations meet the objects hooks themselves leave behind
		maxDepth = 1
	}
	if depthCap > 0 && depthCap < maxDepth {
		maxDepth = depthCap
	}
	// uninstall appears in two spellings everywhere: purge, and --keep-history
	unX, unK := hx.Op{Kind: "uninstall"}, hx.Op{Kind: "uninstall", KeepHistory: true}
	return &opspace.Config{
		Property: prop,
		Drivers:  drivers,
		Inits:    []string{init},
		MakeInit: makeInit,
		MaxDepth: maxDepth, MaxFaulty: 1,
		FaultKinds: func(_ string, op hx.Op, call sim.Call) []string {
			if k := hookCall(call.Label); k != "" && !op.DisableHooks {
				return []string{k}
			}
			return nil
		},
		Alphabet: func(_ *hx.World, _ []*rspb.Release, path []opspace.Step) []opspace.Step {
			if len(path) == 0 {
				return both(hx.Op{Kind: "install", Chart: c1})
			}
			last := path[len(path)-1]
			if last.Op.DisableHooks || last.Op.Kind == "uninstall" {
				return nil // hooks-disabled steps and uninstall end a history
			}
			if r, _, _ := model(init, hooks, path); r.Failed {
				// after a failed operation (injected or natural conflict): thorough
				// looks at the uninstall that cleans up, quick stops
				if thorough {
					return []opspace.Step{{Op: unX}, {Op: unK}}
				}
				return nil
			}
			switch last.Op.Kind {
			case "install":
				return both(hx.Op{Kind: "upgrade", Chart: c2}, unX, unK)
			case "upgrade":
				if thorough {
					return both(hx.Op{Kind: "rollback"}, unX, unK)
				}
				return both(hx.Op{Kind: "rollback"})
			case "rollback":
				return both(unX, unK)
			}
			return nil
		},
		Check: check,
		Expand: func(t *opspace.Transition) bool {
			// do not search on from a transition that contradicts the model
			r, _, _ := model(t.Init, hooks, t.Path)
			return t != lastBad && r.Failed == t.Res.Failed
		},
	}
}

func run(c *core.Ctx) {
	thorough := c.Thorough()
	sets := families(thorough)
	drivers := []string{"memory"}
	if thorough {
		drivers = []string{"memory", "secrets"}
	}
	perFamily := map[string]int{}
	for _, hs := range sets {
		if c.Only != "" && !has(strings.Split(c.Only, ","), hs.Family) {
			continue // --only F1,F2: debugging aid, restricts the run to some families
		}
		perFamily[hs.Family]++
		inits := []string{"clean"}
		if !hs.NoStale {
			inits = append(inits, staleInits(hs)...)
		}
		for _, init := range inits {
			config(c.Tier, hs.Hooks, init, drivers, hs.DepthCap).Run(c)
		}
		// opspace takes one unit of work per (driver, init, first step): an even
		// number per hook set, the heavy one (clean cluster, hooks on) always first.
		// One skipped unit per hook set makes the period odd, so the heavy units
		// spread over all shards instead of landing on the even ones.
		c.NextMine()
	}
	var fam []string
	for _, f := range []string{"F1", "F1b", "F1e", "F2", "F3m", "F3p", "F3o", "Fw2", "Fw3", "F2e"} {
		if perFamily[f] > 0 {
			fam = append(fam, fmt.Sprintf("%s=%d", f, perFamily[f]))
		}
	}
	c.Bound("hook_sets", fmt.Sprintf("%d (%s)", len(sets), strings.Join(fam, " ")))
	c.Bound("hooks_per_set", "<=3")
	c.Bound("max_depth", "4 operations (1 when the initial cluster holds a stale hook object and every hook is attached to an install event)")
	c.Bound("initial_clusters", "clean; one stale object per hook; all hooks stale (Fw2, Fw3: clean only)")
	c.Bound("histories", "install -> {upgrade -> {rollback -> U"+map[bool]string{true: " | U", false: ""}[thorough]+"} | U}, U = uninstall | uninstall --keep-history; every step also with hooks disabled (terminal)"+
		map[bool]string{true: "; U after every failed step; Fw3: first two operations only", false: "; a failed step ends the history; Fw3: first operation only"}[thorough])
	c.Bound("faults", "each hook create request rejected, each hook WatchUntilReady failing; at most one per history")
	c.Bound("drivers", strings.Join(drivers, ","))
	c.SetExtra("reading", "a hook whose creation is refused never existed (no policy deletion expected for it); earlier hooks of the event that succeeded are deleted when their policy has hook-succeeded")
}

type replayData struct {
	opspace.Replay
	Key  string `json:"key"`
	Tier string `json:"tier"`
}

func hooksOfPath(path []opspace.Step) []hx.HookSpec {
	for _, st := range path {
		if st.Op.Chart != nil {
			return st.Op.Chart.Hooks
		}
	}
	return nil
}

func replay(c *core.Ctx, data json.RawMessage) []core.Violation {
	var rd replayData
	if err := json.Unmarshal(data, &rd); err != nil {
		return nil
	}
	config(rd.Tier, hooksOfPath(rd.Path), rd.Init, []string{rd.Driver}, 0).ReplayPath(c, rd.Replay)
	return core.FilterKey(c.TakeViolations(), rd.Key)
}
