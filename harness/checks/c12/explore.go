package c12

import (
	"encoding/json"
	"fmt"
	"strings"

	rspb "helm.sh/helm/v4/pkg/release/v1"

	"verif/harness/internal/core"
	"verif/harness/internal/hx"
	"verif/harness/internal/opspace"
	"verif/harness/internal/sim"
)

// runsAtInstall: every hook of the set is attached to an install event, so a
// stale object is met by the very first operation.
func runsAtInstall(hooks []hx.HookSpec) bool {
	for _, h := range normHooks(hooks) {
		if !has(h.Events, "pre-install") && !has(h.Events, "post-install") {
			return false
		}
	}
	return true
}

// probes: the --atomic + hooks-disabled probes are run for the hook sets with one
// hook and for the three-hook sets that mix pre and post hooks (the clause "no hook
// request at all" does not depend on how several hooks interact).
func probes(hooks []hx.HookSpec) bool {
	if len(hooks) == 1 {
		return true
	}
	pre, post := false, false
	for _, h := range normHooks(hooks) {
		for _, e := range h.Events {
			pre = pre || strings.HasPrefix(e, "pre-")
			post = post || strings.HasPrefix(e, "post-")
		}
	}
	return len(hooks) == 3 && pre && post
}

// oneCase is one (hook set, initial cluster) of the run.
type oneCase struct {
	hooks    []hx.HookSpec
	init     string // "clean" | "stale:Kind/name+..."
	depthCap int
	filler   bool // one cheap unit of work that only shifts the shard assignment
}

// cur is the case being explored. opspace explores one initial state completely
// before it builds the next one and is single-threaded, so MakeInit can publish
// the case for Alphabet and FaultKinds (which are not told the initial state).
var cur struct {
	oneCase
	driver string
}

// markCtx, when set, receives a mark (the history about to be extended) so that
// a worker that does not come back can be attributed to a case.
var markCtx *core.Ctx

// initName strips the case index from an opspace init string "clean#123".
func initName(init string) string {
	if i := strings.Index(init, "#"); i >= 0 {
		return init[:i]
	}
	return init
}

func maxDepthOf(cs oneCase) int {
	d := 4
	if cs.init != "clean" && runsAtInstall(cs.hooks) {
		// the stale object is consumed (deleted or collided with) by the first
		// operation; later operations meet the objects hooks themselves leave behind
		d = 1
	}
	if cs.depthCap > 0 && cs.depthCap < d {
		d = cs.depthCap
	}
	return d
}

// config builds the search over all cases as ONE opspace run (opspace does
// per-run work such as the simulator self-check). For a replay, cases is nil
// and replayHooks names the hook set.
func config(tier string, cases []oneCase, replayHooks []hx.HookSpec, drivers []string) *opspace.Config {
	thorough := tier == "thorough"
	caseOf := func(init string) oneCase {
		if i := strings.Index(init, "#"); i >= 0 && cases != nil {
			var n int
			fmt.Sscan(init[i+1:], &n)
			return cases[n]
		}
		return oneCase{hooks: replayHooks, init: initName(init)}
	}
	var inits []string
	for i, cs := range cases {
		inits = append(inits, fmt.Sprintf("%s#%d", cs.init, i))
	}
	both := func(ops ...hx.Op) []opspace.Step {
		var out []opspace.Step
		for _, o := range ops {
			out = append(out, opspace.Step{Op: o})
		}
		for _, o := range ops {
			o.DisableHooks = true
			out = append(out, opspace.Step{Op: o})
		}
		return out
	}
	// uninstall appears in two spellings everywhere: purge, and --keep-history
	unX, unK := hx.Op{Kind: "uninstall"}, hx.Op{Kind: "uninstall", KeepHistory: true}
	cfg := &opspace.Config{
		Property: prop,
		Drivers:  drivers,
		Inits:    inits,
		MakeInit: func(drv, init string) *hx.World {
			cur.oneCase, cur.driver = caseOf(init), drv
			return makeInit(drv, initName(init))
		},
		MaxDepth: 4, MaxFaulty: 1,
		DepthFor: func(init string) int { return maxDepthOf(caseOf(init)) },
		FaultKinds: func(_ string, op hx.Op, call sim.Call) []string {
			if op.Atomic && op.DisableHooks {
				// probe for the hooks-disabled clause on the operations Helm starts on its
				// own: the release resources never become ready, so --atomic rolls the
				// upgrade back / uninstalls the install; no hook may be touched
				if call.Label == "wait:Wait" && call.Occurrence == 0 {
					return []string{"wait-fail"}
				}
				return nil
			}
			if op.DisableHooks {
				return nil
			}
			for _, h := range cur.hooks {
				if call.Label == "POST "+resourceOfKind[h.Kind]+"/"+h.Name {
					return []string{"reject"}
				}
				if call.Label == "wait:WatchUntilReady "+h.Name {
					return []string{"wait-fail"}
				}
			}
			return nil
		},
		Alphabet: func(_ *hx.World, _ []*rspb.Release, path []opspace.Step) []opspace.Step {
			init, hooks := cur.init, cur.hooks
			c1, c2 := charts(hooks)
			if cur.filler {
				if len(path) == 0 {
					return []opspace.Step{{Env: &opspace.EnvStep{Kind: "delete", Path: "/filler"}}}
				}
				return nil
			}
			mark(path)
			if len(path) == 0 {
				first := both(hx.Op{Kind: "install", Chart: c1})
				if init == "clean" && probes(hooks) {
					first = append(first, opspace.Step{Op: hx.Op{Kind: "install", Chart: c1, Atomic: true, DisableHooks: true}})
				}
				return first
			}
			last := path[len(path)-1]
			if last.Op.DisableHooks {
				return nil // hooks-disabled steps end a history
			}
			r, _, failures := model(init, hooks, path)
			if last.Op.Kind == "uninstall" {
				// a failed uninstall is tried again (once): a pre-delete hook that failed
				// must gate the second attempt too; after a failed post-delete hook the
				// release is gone and nothing may be touched
				if r.Failed && failures == 1 && !r.Deleted {
					return []opspace.Step{{Op: unX}}
				}
				return nil
			}
			if r.Failed {
				// after a failed operation (injected fault or natural conflict)
				if failures > 1 {
					return nil
				}
				var out []opspace.Step
				if last.Op.Kind == "upgrade" {
					// the usual reaction to a failed upgrade: roll back. The rollback runs the
					// hooks stored with the target revision (their recorded run state included)
					// against whatever the failed upgrade left in the cluster.
					out = append(out, opspace.Step{Op: hx.Op{Kind: "rollback"}})
				}
				if thorough {
					out = append(out, opspace.Step{Op: unX})
				}
				return out
			}
			if failures > 0 {
				return nil // the rollback after a failed upgrade ends the history
			}
			upgrades := 0
			for _, st := range path {
				if st.Op.Kind == "upgrade" {
					upgrades++
				}
			}
			switch last.Op.Kind {
			case "install":
				out := both(hx.Op{Kind: "upgrade", Chart: c2}, unX, unK)
				if probes(hooks) {
					out = append(out, opspace.Step{Op: hx.Op{Kind: "upgrade", Chart: c2, Atomic: true, DisableHooks: true}})
				}
				return out
			case "upgrade":
				if upgrades == 2 {
					return []opspace.Step{{Op: hx.Op{Kind: "rollback"}}}
				}
				out := both(hx.Op{Kind: "rollback"})
				if thorough {
					out = both(hx.Op{Kind: "rollback"}, unX, unK)
				}
				if !runsAtInstall(hooks) {
					// hooks that do not run at install have no recorded run in revision 1:
					// a second upgrade (back to chart c-1) gives "earlier upgrade succeeded,
					// later upgrade failed, roll back to the earlier one"
					out = append(out, opspace.Step{Op: hx.Op{Kind: "upgrade", Chart: c1}})
				}
				return out
			case "rollback":
				return both(unX, unK)
			}
			return nil
		},
		Check: check,
		Expand: func(t *opspace.Transition) bool {
			// do not search on from a transition that contradicts the model
			r, _, _ := model(t.Init, hooksOfPath(t.Path), t.Path)
			return t != lastBad && r.Failed == t.Res.Failed
		},
	}
	return cfg
}

func run(c *core.Ctx) {
	thorough := c.Thorough()
	sets := families(thorough)
	drivers := []string{"memory"}
	if thorough {
		drivers = []string{"memory", "secrets"}
	}
	perFamily := map[string]int{}
	var cases []oneCase
	fillers := 0
	for _, hs := range sets {
		if c.Only != "" && !has(strings.Split(c.Only, ","), hs.Family) {
			continue // --only F1,F2: debugging aid, restricts the run to some families
		}
		perFamily[hs.Family]++
		inits := []string{"clean"}
		if !hs.NoStale {
			inits = append(inits, staleInits(hs)...)
		}
		for _, init := range inits {
			cases = append(cases, oneCase{hooks: hs.Hooks, init: init, depthCap: hs.DepthCap})
		}
		// opspace takes one unit of work per (driver, init, first step), the heavy one
		// (clean cluster, hooks on) first. With an even number of units per hook set the
		// heavy units would land on a few shards only; a filler case (one no-op
		// environment step, no Helm operation) makes the period odd.
		units := 2 * len(inits)
		if probes(hs.Hooks) {
			units++
		}
		if units%2 == 0 {
			cases = append(cases, oneCase{filler: true, init: "clean"})
			fillers++
		}
	}
	markCtx = c
	config(c.Tier, cases, nil, drivers).Run(c)
	markCtx = nil
	var fam []string
	for _, f := range []string{"F1", "F1b", "F1e", "F1r", "Fs", "Fse", "Fwr", "F2", "F3m", "F3p", "F3o", "Fw2", "Fw3", "F2e"} {
		if perFamily[f] > 0 {
			fam = append(fam, fmt.Sprintf("%s=%d", f, perFamily[f]))
		}
	}
	c.Bound("hook_sets", fmt.Sprintf("%d (%s)", len(sets), strings.Join(fam, " ")))
	c.Bound("hooks_per_set", "<=3")
	c.Bound("max_depth", "4 operations (1 when the initial cluster holds a stale hook object and every hook is attached to an install event)")
	c.Bound("filler_units", fmt.Sprintf("%d no-op units per driver (counted as transitions) that only balance the shards", fillers))
	c.Bound("initial_clusters", fmt.Sprintf("%d (hook set, initial cluster) pairs: clean; one stale object per hook; all hooks stale (Fw2, Fw3: clean only)", len(cases)-fillers))
	c.Bound("histories", "install -> {upgrade -> {rollback -> U"+map[bool]string{true: " | U", false: ""}[thorough]+"} | U}, U = uninstall | uninstall --keep-history; every step also with hooks disabled (terminal); "+
		"failed uninstall -> uninstall again; failed upgrade -> rollback; hook sets not running at install: install -> upgrade -> upgrade(c-1) -> rollback; install/upgrade --atomic --no-hooks with the readiness wait failing"+
		map[bool]string{true: "; uninstall after every failed step; Fw3: first two operations only", false: "; any other failed step ends the history; Fw3: first operation only"}[thorough])
	c.Bound("faults", "each hook create request rejected, each hook WatchUntilReady failing; at most one per history; plus the readiness wait of install/upgrade --atomic --no-hooks")
	c.Bound("drivers", strings.Join(drivers, ","))
	c.SetExtra("reading", "a hook whose creation is refused never existed (no policy deletion expected for it); earlier hooks of the event that succeeded are deleted when their policy has hook-succeeded")
}

// ---------- replay, marks, workers that do not come back ----------

type replayData struct {
	opspace.Replay
	Key  string `json:"key"`
	Tier string `json:"tier"`
	// Hang: the worker died or was killed by the watchdog while extending Path;
	// Hooks names the hook set (the path may still be empty).
	Hang  bool          `json:"hang,omitempty"`
	Hooks []hx.HookSpec `json:"hooks,omitempty"`
}

const hangKey = "no-return|operation-did-not-return-or-worker-died"

func hooksOfPath(path []opspace.Step) []hx.HookSpec {
	for _, st := range path {
		if st.Op.Chart != nil {
			return st.Op.Chart.Hooks
		}
	}
	return cur.hooks
}

// slim drops the chart bodies from a path (marks are limited to 8 KB); fat puts them back.
func slim(path []opspace.Step) []opspace.Step {
	out := append([]opspace.Step{}, path...)
	for i := range out {
		if out[i].Op.Chart != nil {
			out[i].Op.Chart = &hx.ChartSpec{Version: out[i].Op.Chart.Version}
		}
	}
	return out
}

func fat(path []opspace.Step, hooks []hx.HookSpec) []opspace.Step {
	c1, c2 := charts(hooks)
	out := append([]opspace.Step{}, path...)
	for i := range out {
		if out[i].Op.Chart != nil {
			if out[i].Op.Chart.Version == "2" {
				out[i].Op.Chart = c2
			} else {
				out[i].Op.Chart = c1
			}
		}
	}
	return out
}

func mark(path []opspace.Step) {
	if markCtx == nil {
		return
	}
	b, _ := json.Marshal(replayData{Replay: opspace.Replay{Driver: cur.driver, Init: cur.init, Path: slim(path)}, Key: hangKey, Tier: markCtx.Tier, Hang: true, Hooks: cur.hooks})
	markCtx.Mark(string(b))
}

// crashViolation turns a worker that died or was killed by the watchdog into a
// violation of its own key; the runner confirms it by replaying the marked
// history with every extension (a replay that returns normally is reported as
// harness nondeterminism and the run as not exhaustive - never as clean).
func crashViolation(mark string, stderr string) *core.Violation {
	var rd replayData
	if json.Unmarshal([]byte(mark), &rd) != nil || !rd.Hang {
		return nil
	}
	return &core.Violation{Property: prop, Key: hangKey, Replay: json.RawMessage(mark),
		What: fmt.Sprintf("a worker did not come back while extending history %v of hook set %v (driver=%s init=%s): an operation under test does not return, or the worker died: %s",
			opspace.PathStrings(rd.Path), rd.Hooks, rd.Driver, rd.Init, strings.Join(strings.Fields(stderr), " "))}
}

func replay(c *core.Ctx, data json.RawMessage) []core.Violation {
	var rd replayData
	if err := json.Unmarshal(data, &rd); err != nil {
		return nil
	}
	if !rd.Hang {
		config(rd.Tier, nil, hooksOfPath(rd.Path), []string{rd.Driver}).ReplayPath(c, rd.Replay)
		return core.FilterKey(c.TakeViolations(), rd.Key)
	}
	// re-run the marked history with every extension the explorer would have tried
	cfg := config(rd.Tier, nil, rd.Hooks, []string{rd.Driver})
	prefix := fat(rd.Path, rd.Hooks)
	w := cfg.MakeInit(rd.Driver, rd.Init)
	for _, t := range cfg.ReplayPath(c, opspace.Replay{Driver: rd.Driver, Init: rd.Init, Path: prefix}) {
		w = t.Post
	}
	for _, st := range cfg.Alphabet(w, nil, prefix) {
		ts := cfg.ReplayPath(c, opspace.Replay{Driver: rd.Driver, Init: rd.Init, Path: append(append([]opspace.Step{}, prefix...), st)})
		for _, call := range ts[len(ts)-1].Res.Calls {
			for _, kind := range cfg.FaultKinds(rd.Driver, st.Op, call) {
				fs := st
				fs.Fault = &sim.Fault{Label: call.Label, Occurrence: call.Occurrence, Kind: kind}
				cfg.ReplayPath(c, opspace.Replay{Driver: rd.Driver, Init: rd.Init, Path: append(append([]opspace.Step{}, prefix...), fs)})
			}
		}
	}
	c.TakeViolations()
	return nil // everything returned: the death of the worker is not reproduced
}
