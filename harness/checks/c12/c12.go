// Package c12: hooks run in weight order, gate the operation, and honour
// delete policies. For every hook set of a bounded grammar a state search
// over operation histories (install -> upgrade -> rollback -> uninstall and
// sub-sequences) is run on the real actions behind the simulated API server;
// every transition is executed fault-free and once per (hook create request,
// hook completion wait) discovered from the fault-free run, with that call
// failing. The ordered request log of every transition is compared with the
// trace produced by an independent reference generator (ref.go).
package c12

import (
	"math"
	"strings"

	"verif/harness/internal/core"
	"verif/harness/internal/hx"
	"verif/harness/internal/opspace"
	"verif/harness/internal/sim"
)

const prop = "C12"

func init() {
	core.Register(&core.Check{
		ID:    prop,
		Level: "model_checking",
		Rule: "for every hook set of the grammar (hooks h1..h3, kinds {ConfigMap,Job}, weights {-1,0,1}, 5 delete-policy sets, attached to the pre or the post events of all four operations unless said otherwise: " +
			"F1 one hook, full product; F1b one hook on all 8 events; F1e one hook on each single event; F2 two hooks, full product phase^2 x weight^2 x policy^2 x kinds {CJ,JC}(+CC,JJ thorough); " +
			"F3m three hooks, the 6 mixed phase vectors x one policy for all; F3p three hooks of one phase, all 125 policy vectors; F3o three hooks of one phase, the 13 weak orders of weights (27 vectors thorough) x 4 (8) kind vectors x one policy for all; " +
			"Fw2 two hooks of one phase, all 49 ordered weight pairs over {MinInt64,-2^62,-1,0,1,2^62,MaxInt64} x 4 kind vectors, clean cluster only; Fw3 three hooks of one phase, all 125 ordered weight triples over {MinInt64,-1,0,1,MaxInt64} x 8 kind vectors, clean cluster only, history cut after the first (thorough: second) operation; " +
			"F2e (thorough) two hooks on all 64 pairs of single events) and every initial cluster (clean | one stale object per hook | all stale): " +
			"BFS over histories install -> {upgrade -> {rollback -> U | U(thorough)} | U} with U = uninstall | uninstall --keep-history, every step with hooks on and (terminal) with hooks disabled; a failed uninstall is followed by a second uninstall (the failed pre-delete hook must gate every attempt; after the resources are gone nothing may be touched); a failed upgrade is followed by rollback (which runs the hooks stored with the target revision against what the failed upgrade left behind); " +
			"hook sets that do not run at install also get install -> upgrade -> upgrade -> rollback; thorough also uninstall after every failed step; install and upgrade also with --atomic + hooks disabled + the readiness wait failing (no hook request may appear in the automatic uninstall/rollback); " +
			"every transition is the real action on a clone of the state, run fault-free and once per hook-create request (rejected 403) and per hook WatchUntilReady call (error) discovered from the fault-free run; " +
			"the projection of the server's request log (effective POST/DELETE on hook objects, WatchUntilReady calls, block of release-resource mutations, readiness wait) must equal the trace of the reference generator. " +
			"non-trivial = the chart has hooks and the injected fault (if any) was reached; distinct = (driver, initial cluster, history incl. hook set and fault)",
		Run:            run,
		Replay:         replay,
		CrashViolation: crashViolation,
		Assumptions: []string{
			"simulated API server; hook completion (WatchUntilReady) and readiness are scripted: success unless the injected fault says otherwise",
			"a rejected create is answered 403 Forbidden; a create over an existing object is answered 409 by the sim (natural conflict, no injection)",
			"all revisions of a history carry the same hook set (charts c-1 {ConfigMap a, Secret x} and c-2 {ConfigMap a', Secret x'}: every operation mutates release resources, except possibly a rollback after an upgrade that failed before touching them - then the RES token is not required)",
			"at most one release resource per kind; hooks run one at a time, so the request order is deterministic",
			"only effective deletes (object existed) are compared: a DELETE answered 404 changes nothing and the statement does not speak about it",
			"the order among several policy deletions issued back to back is not prescribed by the statement and is not compared",
			"reading used for a hook whose creation is refused: it never existed, so no policy deletion is expected for it; hooks of the same event that already succeeded are still covered by their hook-succeeded policy (ref.go: earlierSucceededCovered=true)",
			"pre-X hooks precede the first mutation of a release resource and post-X hooks follow the last one and the readiness wait: taken as the definition of the lifecycle events",
		},
		RequiredFloors: []string{"order:weight-decides", "order:name-breaks-tie", "order:tie-against-kind-order", "order:weights-more-than-2^63-apart", "spelling:policy-list-with-blanks", "spelling:policy-not-first-decides", "spelling:event-list-with-blanks", "spelling:zero-padded-weight-decides", "uninstall:repeated-after-failed-pre-delete-hook", "uninstall:repeated-on-deleted-release", "uninstall:keep-history-post-hook-failed",
			"rollback-after-failed-upgrade", "rollback-after-second-upgrade-failed", "rollback:leftover-of-failed-upgrade-deleted-first", "disabled:atomic-upgrade-undone", "disabled:atomic-install-undone", "stale:deleted-first", "stale:conflict", "policy:succeeded-delete", "policy:failed-delete",
			"policy:succeeded-after-later-wait-failure", "policy:kept", "gate:pre-failed", "gate:post-failed", "gate:later-hook-skipped", "disabled", "fault:create-rejected", "fault:wait", "hook-in-both-phases",
			"op:install", "op:upgrade", "op:rollback", "op:uninstall"},
	})
}

// ---------- the hook-set grammar ----------

var policySets = [][]string{nil, {"hook-succeeded"}, {"hook-failed"}, {"before-hook-creation", "hook-succeeded"}, {"hook-succeeded", "hook-failed"}}
var kinds = []string{"ConfigMap", "Job"}
var weights = []int{-1, 0, 1}
var opsOfEvent = []string{"install", "upgrade", "rollback", "delete"}

func phaseEvents(p string) []string {
	var out []string
	for _, o := range opsOfEvent {
		out = append(out, p+"-"+o)
	}
	return out
}

var singleEvents = append(phaseEvents("pre"), phaseEvents("post")...)

// hookSet is one member of the grammar.
type hookSet struct {
	Family string
	Hooks  []hx.HookSpec
	// DepthCap > 0 limits the history length for this set (ordering families whose
	// subject, the sort inside execHook, is met by the first operation already).
	DepthCap int
	// NoStale: only the clean initial cluster (the family is about ordering).
	NoStale bool
}

func mk(name string, kind string, events []string, w int, pol []string) hx.HookSpec {
	return hx.HookSpec{Name: name, Kind: kind, Events: events, Weight: w, Policies: pol}
}

// weak orders of three weights, one representative each (quick tier)
var weakOrders3 = [][3]int{{0, 0, 0}, {-1, 0, 1}, {-1, 1, 0}, {0, -1, 1}, {0, 1, -1}, {1, -1, 0}, {1, 0, -1}, {-1, -1, 1}, {-1, 1, -1}, {1, -1, -1}, {-1, 0, 0}, {0, -1, 0}, {0, 0, -1}}

func families(thorough bool) []hookSet {
	var out []hookSet
	names := []string{"h1", "h2", "h3"}
	phases := []string{"pre", "post"}
	// F1: one hook attached to one phase of all four operations
	for _, p := range phases {
		for _, w := range weights {
			for _, k := range kinds {
				for _, pol := range policySets {
					out = append(out, hookSet{Family: "F1", Hooks: []hx.HookSpec{mk("h1", k, phaseEvents(p), w, pol)}})
				}
			}
		}
	}
	// F1b: one hook attached to both phases of all four operations
	for _, k := range kinds {
		for _, pol := range policySets {
			out = append(out, hookSet{Family: "F1b", Hooks: []hx.HookSpec{mk("h1", k, singleEvents, 0, pol)}})
		}
	}
	// F1e: one hook attached to a single event (selection by event)
	for _, e := range singleEvents {
		for _, k := range kinds {
			for _, pol := range policySets {
				out = append(out, hookSet{Family: "F1e", Hooks: []hx.HookSpec{mk("h1", k, []string{e}, 0, pol)}})
			}
		}
	}
	// F1r: one hook attached to an upgrade event and a rollback event only (it never
	// runs at install, so revision 1 records no run of it)
	for _, pu := range phases {
		for _, pr := range phases {
			for _, k := range kinds {
				for _, pol := range policySets {
					out = append(out, hookSet{Family: "F1r", Hooks: []hx.HookSpec{mk("h1", k, []string{pu + "-upgrade", pr + "-rollback"}, 0, pol)}})
				}
			}
		}
	}
	// Fs / Fse: the SPELLING of the list-valued annotations. hx renders a list with
	// strings.Join(elements, ","), so blanks and case are put into the elements.
	// Fs: one hook, every ordered delete-policy list of length 2 and 3 over
	// {before-hook-creation, hook-succeeded, hook-failed} x separator {"," ", " " ," " , "}
	// x {lower case, Mixed-Case}. Fse: the event list spelt the same ways (all four
	// events of a phase, forwards and backwards; and upgrade+rollback only).
	spell := func(list []string, sep int, mixed bool) []string {
		out := make([]string, len(list))
		for i, e := range list {
			if mixed {
				parts := strings.Split(e, "-")
				for j, w := range parts {
					parts[j] = strings.ToUpper(w[:1]) + w[1:]
				}
				e = strings.Join(parts, "-")
			}
			if i > 0 && (sep == 1 || sep == 3) {
				e = " " + e // blank after the comma
			}
			if i < len(list)-1 && (sep == 2 || sep == 3) {
				e += " " // blank before the comma
			}
			out[i] = e
		}
		return out
	}
	p3 := []string{"before-hook-creation", "hook-succeeded", "hook-failed"}
	var orders [][]string
	for i := range p3 {
		for j := range p3 {
			if i != j {
				orders = append(orders, []string{p3[i], p3[j]})
			}
		}
	}
	for i := range p3 {
		for j := range p3 {
			for k := range p3 {
				if i != j && j != k && i != k {
					orders = append(orders, []string{p3[i], p3[j], p3[k]})
				}
			}
		}
	}
	for _, p := range phases {
		for _, k := range kinds {
			for _, o := range orders {
				for sep := 0; sep < 4; sep++ {
					for _, mixed := range []bool{false, true} {
						out = append(out, hookSet{Family: "Fs", Hooks: []hx.HookSpec{mk("h1", k, phaseEvents(p), 0, spell(o, sep, mixed))}})
					}
				}
			}
		}
	}
	for _, p := range phases {
		ev := phaseEvents(p)
		rev := []string{ev[3], ev[2], ev[1], ev[0]}
		for _, list := range [][]string{ev, rev, {p + "-upgrade", p + "-rollback"}, {p + "-rollback", p + "-upgrade"}} {
			for sep := 0; sep < 4; sep++ {
				for _, mixed := range []bool{false, true} {
					for _, pol := range [][]string{nil, {"hook-succeeded"}} {
						out = append(out, hookSet{Family: "Fse", Hooks: []hx.HookSpec{mk("h1", "Job", spell(list, sep, mixed), 0, pol)}})
					}
				}
			}
		}
	}
	// F2: two hooks, full product of phase x weight x policy; kinds (C,J),(J,C) [+ (C,C),(J,J) thorough]
	kinds2 := [][2]string{{"ConfigMap", "Job"}, {"Job", "ConfigMap"}}
	if thorough {
		kinds2 = append(kinds2, [2]string{"ConfigMap", "ConfigMap"}, [2]string{"Job", "Job"})
	}
	for _, p1 := range phases {
		for _, p2 := range phases {
			for _, w1 := range weights {
				for _, w2 := range weights {
					for _, k := range kinds2 {
						for _, pol1 := range policySets {
							for _, pol2 := range policySets {
								out = append(out, hookSet{Family: "F2", Hooks: []hx.HookSpec{mk("h1", k[0], phaseEvents(p1), w1, pol1), mk("h2", k[1], phaseEvents(p2), w2, pol2)}})
							}
						}
					}
				}
			}
		}
	}
	// F3m: three hooks in mixed phases (all 6 non-uniform phase vectors), one policy for all
	w3m := [][3]int{{0, 0, 0}}
	if thorough {
		w3m = [][3]int{{0, 0, 0}, {1, 0, -1}, {-1, 1, 0}}
	}
	for pv := 1; pv < 7; pv++ {
		for _, w := range w3m {
			for _, pol := range policySets {
				var hs []hx.HookSpec
				for i := 0; i < 3; i++ {
					hs = append(hs, mk(names[i], kinds[i%2], phaseEvents(phases[(pv>>i)&1]), w[i], pol))
				}
				out = append(out, hookSet{Family: "F3m", Hooks: hs})
			}
		}
	}
	// F3p: three hooks in one phase, all 125 policy vectors
	w3p := [][3]int{{0, 0, 0}}
	if thorough {
		w3p = [][3]int{{0, 0, 0}, {1, 0, -1}}
	}
	for _, p := range phases {
		for _, w := range w3p {
			for _, a := range policySets {
				for _, b := range policySets {
					for _, c := range policySets {
						out = append(out, hookSet{Family: "F3p", Hooks: []hx.HookSpec{mk("h1", "ConfigMap", phaseEvents(p), w[0], a), mk("h2", "Job", phaseEvents(p), w[1], b), mk("h3", "ConfigMap", phaseEvents(p), w[2], c)}})
					}
				}
			}
		}
	}
	// F3o: three hooks in one phase: weight vectors x kind vectors, one policy for all
	var w3o [][3]int
	k3o := [][3]int{{0, 0, 0}, {1, 0, 0}, {0, 1, 0}, {1, 1, 0}}
	pol3o := policySets
	if thorough {
		for _, a := range weights {
			for _, b := range weights {
				for _, c := range weights {
					w3o = append(w3o, [3]int{a, b, c})
				}
			}
		}
		k3o = nil
		for i := 0; i < 8; i++ {
			k3o = append(k3o, [3]int{i & 1, (i >> 1) & 1, (i >> 2) & 1})
		}
	} else {
		w3o = weakOrders3
	}
	for _, p := range phases {
		for _, w := range w3o {
			for _, k := range k3o {
				for _, pol := range pol3o {
					var hs []hx.HookSpec
					for i := 0; i < 3; i++ {
						hs = append(hs, mk(names[i], kinds[k[i]], phaseEvents(p), w[i], pol))
					}
					out = append(out, hookSet{Family: "F3o", Hooks: hs})
				}
			}
		}
	}
	// Fw2 / Fw3: extreme weights. The annotation is parsed into a Go int, so the
	// whole int64 range is legal; a comparator that subtracts weights overflows
	// when two weights are more than 2^63-1 apart. All ordered pairs over
	// {MinInt64, -2^62, -1, 0, 1, 2^62, MaxInt64} and all ordered triples over
	// {MinInt64, -1, 0, 1, MaxInt64}, hooks of one phase, every kind vector.
	// Template paths follow the names (templates/hook-hN.yaml) and Helm lists
	// ConfigMaps before Jobs, so ordered weight tuples x kind vectors put every
	// pair of weights in both arrival orders in front of the sort.
	const big = 1 << 62
	w7 := []int{math.MinInt64, -big, -1, 0, 1, big, math.MaxInt64}
	w5 := []int{math.MinInt64, -1, 0, 1, math.MaxInt64}
	for _, p := range phases {
		for _, a := range w7 {
			for _, b := range w7 {
				for k := 0; k < 4; k++ {
					out = append(out, hookSet{Family: "Fw2", NoStale: true, Hooks: []hx.HookSpec{mk("h1", kinds[k&1], phaseEvents(p), a, nil), mk("h2", kinds[k>>1], phaseEvents(p), b, nil)}})
				}
			}
		}
	}
	capW3 := 1 // quick: install only (with its faults and the hooks-disabled variant)
	if thorough {
		capW3 = 2 // install -> {upgrade | uninstall | uninstall --keep-history}: hooks re-read from the stored record
	}
	for _, p := range phases {
		for _, a := range w5 {
			for _, b := range w5 {
				for _, c := range w5 {
					for k := 0; k < 8; k++ {
						out = append(out, hookSet{Family: "Fw3", NoStale: true, DepthCap: capW3, Hooks: []hx.HookSpec{
							mk("h1", kinds[k&1], phaseEvents(p), a, nil), mk("h2", kinds[(k>>1)&1], phaseEvents(p), b, nil), mk("h3", kinds[(k>>2)&1], phaseEvents(p), c, nil)}})
					}
				}
			}
		}
	}
	// Fwr: the SPELLING of the weight annotation (hx.HookSpec.WeightRaw). The weight
	// is a decimal integer: "010" is ten, "-010" minus ten, "08" eight, "+5" five;
	// what is not a decimal integer ("0x10", " 7") counts as 0. All ordered pairs over
	// 8 spellings x kinds {CJ,JC} and all ordered triples over {"-010","-9","9","010"},
	// hooks of one phase; clean cluster; quick: first operation only.
	rawW := []string{"-010", "-9", "08", "9", "010", "+5", "0x10", " 7"}
	rawT := []string{"-010", "-9", "9", "010"}
	mkr := func(name, kind string, ev []string, raw string) hx.HookSpec {
		h := mk(name, kind, ev, decimalWeight(raw), nil)
		h.WeightRaw = raw
		return h
	}
	capWr := 1
	if thorough {
		capWr = 2
	}
	for _, p := range phases {
		for _, a := range rawW {
			for _, b := range rawW {
				for k := 0; k < 2; k++ {
					out = append(out, hookSet{Family: "Fwr", NoStale: true, DepthCap: capWr, Hooks: []hx.HookSpec{mkr("h1", kinds[k], phaseEvents(p), a), mkr("h2", kinds[1-k], phaseEvents(p), b)}})
				}
			}
		}
		for _, a := range rawT {
			for _, b := range rawT {
				for _, c := range rawT {
					out = append(out, hookSet{Family: "Fwr", NoStale: true, DepthCap: capWr, Hooks: []hx.HookSpec{mkr("h1", "Job", phaseEvents(p), a), mkr("h2", "ConfigMap", phaseEvents(p), b), mkr("h3", "ConfigMap", phaseEvents(p), c)}})
				}
			}
		}
	}
	// F2e (thorough): two hooks attached to single events (all 64 event pairs)
	if thorough {
		for _, e1 := range singleEvents {
			for _, e2 := range singleEvents {
				for _, w := range [][2]int{{0, 0}, {1, -1}} {
					for _, pol := range policySets {
						out = append(out, hookSet{Family: "F2e", Hooks: []hx.HookSpec{mk("h1", "Job", []string{e1}, w[0], pol), mk("h2", "ConfigMap", []string{e2}, w[1], pol)}})
					}
				}
			}
		}
	}
	return out
}

// ---------- charts, initial states, alphabet ----------

func charts(hooks []hx.HookSpec) (*hx.ChartSpec, *hx.ChartSpec) {
	// same resource names in both charts (content differs): a rollback after a failed
	// upgrade must not trip over resources that exist in one manifest only
	c1 := &hx.ChartSpec{Name: "c", Version: "1", Resources: []hx.ResSpec{{Kind: "ConfigMap", Name: "a", Variant: 1}, {Kind: "Secret", Name: "x", Variant: 1}}, Hooks: hooks}
	c2 := &hx.ChartSpec{Name: "c", Version: "2", Resources: []hx.ResSpec{{Kind: "ConfigMap", Name: "a", Variant: 2}, {Kind: "Secret", Name: "x", Variant: 2}}, Hooks: hooks}
	return c1, c2
}

var resourceOfKind = map[string]string{"ConfigMap": "configmaps", "Job": "jobs"}

func hookPath(kind, name string) string {
	if kind == "Job" {
		return sim.ObjPath("batch", "v1", hx.Namespace, "jobs", name)
	}
	return sim.ObjPath("", "v1", hx.Namespace, "configmaps", name)
}

// init strings: "clean" or "stale:Job/h1+ConfigMap/h2"
func staleOf(init string) [][2]string {
	var out [][2]string
	init = initName(init)
	if !strings.HasPrefix(init, "stale:") {
		return nil
	}
	for _, s := range strings.Split(strings.TrimPrefix(init, "stale:"), "+") {
		if kn := strings.SplitN(s, "/", 2); len(kn) == 2 {
			out = append(out, [2]string{kn[0], kn[1]})
		}
	}
	return out
}

func makeInit(drv, init string) *hx.World {
	w := hx.NewWorld(drv)
	for _, kn := range staleOf(init) {
		av := "v1"
		if kn[0] == "Job" {
			av = "batch/v1"
		}
		// an object left behind by an earlier run (of any release)
		w.Sim.Put(hookPath(kn[0], kn[1]), map[string]any{"apiVersion": av, "kind": kn[0], "metadata": map[string]any{"name": kn[1], "labels": map[string]any{"left-by": "earlier-run"}}})
	}
	return w
}

func staleInits(hs hookSet) []string {
	var out, all []string
	for _, h := range hs.Hooks {
		out = append(out, "stale:"+h.Kind+"/"+h.Name)
		all = append(all, h.Kind+"/"+h.Name)
	}
	if len(hs.Hooks) > 1 {
		out = append(out, "stale:"+strings.Join(all, "+"))
	}
	return out
}

// model replays the reference over a path and returns the result of the last
// step and the hook objects expected afterwards.
func model(init string, hooks []hx.HookSpec, path []opspace.Step) (refResult, map[string]bool, int) {
	present := map[string]bool{}
	for _, kn := range staleOf(init) {
		present[kn[1]] = true
	}
	var r refResult
	failures := 0
	deleted := false
	for _, st := range path {
		if deleted {
			// an uninstall got past its pre-delete hooks: the release's resources are
			// gone (and the record purged or marked uninstalled); a further uninstall
			// has no lifecycle event to run hooks for and nothing to delete
			r = refResult{Deleted: true}
			continue
		}
		r = refOp(st.Op.Kind, hooks, st.Op.DisableHooks, toRefFault(st.Fault), present)
		if r.Failed {
			failures++
		}
		if st.Op.Kind == "uninstall" && !(r.Failed && r.Phase == "pre") {
			deleted = true
		}
	}
	return r, present, failures
}

func toRefFault(f *sim.Fault) *refFault {
	if f == nil {
		return nil
	}
	switch {
	case strings.HasPrefix(f.Label, "POST "):
		return &refFault{Verb: "POST", Hook: f.Label[strings.LastIndex(f.Label, "/")+1:], Occ: f.Occurrence}
	case strings.HasPrefix(f.Label, "wait:WatchUntilReady "):
		return &refFault{Verb: "WAIT", Hook: strings.TrimPrefix(f.Label, "wait:WatchUntilReady "), Occ: f.Occurrence}
	}
	return &refFault{Verb: "?", Hook: f.Label}
}
