package c12

import (
	"fmt"
	"sort"
	"strings"

	"verif/harness/internal/core"
	"verif/harness/internal/hx"
	"verif/harness/internal/opspace"
	"verif/harness/internal/sim"
)

// project reduces the server's request log of one operation to the tokens the
// reference speaks about:
//
//	POST h ok|fail   create request on hook object h
//	DELETE h         effective delete of hook object h (404s change nothing and are dropped)
//	<VERB> h         any other mutating request on a hook object (never expected)
//	WAIT h ok|fail   WatchUntilReady on h returned
//	RES              maximal block of mutating requests on release (manifest) resources
//	READY            readiness wait on release resources (Wait / WaitForDelete)
//
// Storage traffic and reads are dropped. anyHookRequest lists every request
// of any verb that touches a hook object (for the hooks-disabled clause).
func project(log []sim.Entry, hooks []hx.HookSpec) (trace []string, anyHookRequest []string) {
	byObj := map[string]string{}
	isHook := map[string]bool{}
	for _, h := range hooks {
		byObj[resourceOfKind[h.Kind]+"/"+h.Name] = h.Name
		isHook[h.Name] = true
	}
	for _, e := range log {
		switch e.Class {
		case "wait":
			names := strings.Split(e.Path, ",")
			nHook := 0
			for _, n := range names {
				if isHook[n] {
					nHook++
				}
			}
			res := "ok"
			if e.Fault != "" {
				res = "fail"
			}
			switch {
			case strings.HasPrefix(e.Label, "wait:WatchUntilReady"):
				trace = append(trace, "WAIT "+e.Path+" "+res)
				anyHookRequest = append(anyHookRequest, e.Label)
			case nHook == len(names) && e.Path != "":
				// WaitForDelete on a hook object: not part of the statement
				anyHookRequest = append(anyHookRequest, e.Label+" "+e.Path)
			default:
				trace = append(trace, "READY")
			}
		case "cluster":
			i := strings.Index(e.Label, " ")
			if i < 0 {
				continue
			}
			obj := e.Label[i+1:]
			if h, ok := byObj[obj]; ok {
				anyHookRequest = append(anyHookRequest, e.Label)
				switch {
				case e.Verb == "POST" && e.Applied:
					trace = append(trace, "POST "+h+" ok")
				case e.Verb == "POST":
					trace = append(trace, "POST "+h+" fail")
				case e.Verb == "DELETE" && e.Applied:
					trace = append(trace, "DELETE "+h)
				case e.Verb == "DELETE" && e.Code == 404:
				case e.Mutating():
					trace = append(trace, e.Verb+" "+h)
				}
				continue
			}
			if e.Mutating() && (len(trace) == 0 || trace[len(trace)-1] != "RES") {
				trace = append(trace, "RES")
			}
		}
	}
	return
}

// sortDeleteRuns puts every maximal run of consecutive DELETE tokens into a
// canonical order (the statement does not order back-to-back deletions).
func sortDeleteRuns(tr, why []string) ([]string, []string) {
	t := append([]string{}, tr...)
	w := make([]string, len(t))
	copy(w, why)
	for i := 0; i < len(t); {
		j := i
		for j < len(t) && strings.HasPrefix(t[j], "DELETE ") {
			j++
		}
		if j-i > 1 {
			idx := make([]int, j-i)
			for k := range idx {
				idx[k] = i + k
			}
			sort.Slice(idx, func(a, b int) bool { return t[idx[a]] < t[idx[b]] })
			ts, ws := make([]string, j-i), make([]string, j-i)
			for k, x := range idx {
				ts[k], ws[k] = t[x], w[x]
			}
			copy(t[i:j], ts)
			copy(w[i:j], ws)
		}
		if j == i {
			j++
		}
		i = j
	}
	return t, w
}

func verbOf(tok string) string { return strings.SplitN(tok, " ", 2)[0] }
func hookOf(tok string) string {
	f := strings.Fields(tok)
	if len(f) > 1 {
		return f[1]
	}
	return ""
}

// classify names the clause broken at the first difference of the traces.
func classify(exp, why, obs []string, r refResult, disabled bool, hooks []hx.HookSpec, opKind string) (clause, detail string) {
	i := 0
	for i < len(exp) && i < len(obs) && exp[i] == obs[i] {
		i++
	}
	e, o, ew := "<end>", "<end>", ""
	if i < len(exp) {
		e, ew = exp[i], why[i]
	}
	if i < len(obs) {
		o = obs[i]
	}
	pol := func(name string) string {
		for _, h := range hooks {
			if h.Name == name {
				if h.Policies == nil {
					return "default"
				}
				return strings.Join(h.Policies, "+")
			}
		}
		return "?"
	}
	ev, ov := verbOf(e), verbOf(o)
	// sequences of hooks in creation order, expected and observed
	posts := func(tr []string) (out []string) {
		for _, t := range tr {
			if verbOf(t) == "POST" {
				out = append(out, hookOf(t))
			}
		}
		return
	}
	pe, po := posts(exp), posts(obs)
	reordered := false
	for k := 0; k < len(pe) && k < len(po); k++ {
		if pe[k] != po[k] {
			reordered = true
			break
		}
	}
	switch {
	case disabled && ov != "RES" && ov != "READY" && o != "<end>":
		return "disabled", "hook-request-with-hooks-disabled"
	case ov == "POST" && !disabled:
		// a hook that is attached to neither event of this operation
		for _, h := range hooks {
			if h.Name == hookOf(o) && !has(h.Events, "pre-"+eventOf[opKind]) && !has(h.Events, "post-"+eventOf[opKind]) {
				return "selection", "hook-of-another-operation-ran"
			}
		}
	}
	switch {
	case reordered:
		return "order", "hooks-created-in-wrong-order"
	case e == "<end>" && r.Failed && r.Phase == "pre" && (ov == "RES" || ov == "READY"):
		return "gate", "release-resources-touched-after-pre-hook-failure"
	case e == "<end>" && r.Failed && ov == "POST":
		return "gate", "later-hook-created-after-hook-failure"
	case ev == "DELETE" && o != e:
		return "policy", "delete-missing:" + ew
	case ov == "DELETE" && ev != "DELETE":
		return "policy", "unexpected-delete:policy=" + pol(hookOf(o)) + ":instead-of-" + ev
	case ev == "POST" && ov == "POST" && hookOf(e) != hookOf(o):
		return "order", "hooks-created-in-wrong-order"
	case ev == "POST" && ov == "POST":
		return "create", "create-outcome-differs"
	case ev == "WAIT" && ov == "POST":
		return "sequential", "next-hook-created-before-previous-completed"
	case ev == "WAIT" && ov != "WAIT":
		return "sequential", "hook-completion-not-awaited"
	case (ev == "RES" || ev == "READY") && (ov == "POST" || ov == "WAIT"):
		return "position", "hook-ran-before-" + map[string]string{"RES": "release-resources-were-applied", "READY": "readiness-wait"}[ev]
	case ev == "POST" && (ov == "RES" || ov == "READY" || o == "<end>"):
		return "position", "hook-not-run-before-" + strings.ToLower(o)
	}
	return "trace", "expected-" + ev + "-got-" + ov
}

func opName(o hx.Op) string {
	n := o.Kind
	if o.Atomic {
		n += "[atomic]"
	}
	if o.KeepHistory {
		n += "[keep-history]"
	}
	if o.DisableHooks {
		n += "[no-hooks]"
	}
	return n
}

// orderFloors records which ordering situations a selected hook list exercises.
func orderFloors(c *core.Ctx, hooks []hx.HookSpec, op string, r refResult) {
	if len(r.Ran) < 2 {
		return
	}
	by := map[string]hx.HookSpec{}
	for _, h := range hooks {
		by[h.Name] = h
	}
	for i := 0; i+1 < len(r.Ran); i++ {
		a, b := by[r.Ran[i]], by[r.Ran[i+1]]
		samePhase := false
		for _, p := range []string{"pre-", "post-"} {
			if has(a.Events, p+eventOf[op]) && has(b.Events, p+eventOf[op]) {
				samePhase = true
			}
		}
		if !samePhase {
			continue
		}
		if a.Weight < b.Weight && (a.Weight < 0) != (b.Weight < 0) && b.Weight-a.Weight < 0 {
			// the difference of the two weights does not fit an int64
			c.Floor("order:weights-more-than-2^63-apart")
		}
		if a.Weight != b.Weight && (strings.HasPrefix(strings.TrimLeft(a.WeightRaw, "+-"), "0") || strings.HasPrefix(strings.TrimLeft(b.WeightRaw, "+-"), "0")) {
			c.Floor("spelling:zero-padded-weight-decides")
		}
		switch {
		case a.Weight < b.Weight && a.Name > b.Name:
			c.Floor("order:weight-decides")
		case a.Weight == b.Weight:
			c.Floor("order:name-breaks-tie")
			if a.Kind == "Job" && b.Kind == "ConfigMap" {
				// Helm's manifest sorter lists ConfigMaps before Jobs: the tie is
				// broken against the order the hooks arrive in
				c.Floor("order:tie-against-kind-order")
			}
		}
	}
}

// lastBad is the transition (if any) whose check has just reported a
// violation: the search does not continue from it, so that one defect is not
// reported again through its consequences (the explorer is single-threaded).
var lastBad *opspace.Transition
var noted bool

func check(c *core.Ctx, t *opspace.Transition) {
	if t.Step.Env != nil {
		return
	}
	op, res := t.Step.Op, t.Res
	hooks := normHooks(hooksOfPath(t.Path))
	if len(hooks) == 0 {
		return
	}
	// model state before and after this step
	_, before, _ := model(t.Init, hooks, t.Path[:len(t.Path)-1])
	r, after, failures := model(t.Init, hooks, t.Path)
	failuresBefore := failures
	if r.Failed {
		failuresBefore--
	}
	// probe: hooks disabled + --atomic + the release resources never become ready
	probe := op.Atomic && op.DisableHooks && t.Step.Fault != nil
	exp, why := sortDeleteRuns(r.Trace, r.Why)
	rawObs, hookReqs := project(res.Log, hooks)
	obs, _ := sortDeleteRuns(rawObs, nil)

	hist := opspace.PathStrings(t.Path)
	lastBad = nil
	violate := func(clause, detail, what string) {
		lastBad = t
		key := core.SanitizeKey(fmt.Sprintf("%s|%s|%s", clause, detail, opName(op)))
		if clause == "order" || clause == "policy" || clause == "sequential" || clause == "create" || clause == "selection" {
			key = core.SanitizeKey(fmt.Sprintf("%s|%s", clause, detail)) // execHook is shared by all operations
		}
		c.Violate(prop, key, fmt.Sprintf("%s/%s: %s [driver=%s init=%s history=%v expected=%v observed=%v err=%q]", clause, detail, what, t.Driver, initName(t.Init), hist, exp, obs, res.Err),
			replayData{Replay: opspace.Replay{Driver: t.Driver, Init: initName(t.Init), Path: t.Path}, Key: key, Tier: c.Tier})
	}

	if r.Deleted {
		// a repeated uninstall of a release whose resources an earlier uninstall already
		// removed: there is no lifecycle event left, no hook and no resource may be touched
		c.Distinct(fmt.Sprintf("%s|%s|%v", t.Driver, t.Init, hist))
		c.Outcome("uninstall:already-deleted")
		c.Floor("uninstall:repeated-on-deleted-release")
		if len(obs) > 0 || len(hookReqs) > 0 {
			violate("gone", "requests-for-an-already-deleted-release", fmt.Sprintf("the release was already uninstalled, yet the server saw %v %v", obs, hookReqs))
		}
		lastBad = t
		return
	}
	if op.Kind == "uninstall" && failuresBefore > 0 && len(t.Path) > 1 && t.Path[len(t.Path)-2].Op.Kind == "uninstall" && len(r.Ran) > 0 {
		c.Floor("uninstall:repeated-after-failed-pre-delete-hook")
	}
	// statistics, vacuity floors
	c.Distinct(fmt.Sprintf("%s|%s|%v", t.Driver, t.Init, hist))
	outcome := "ok"
	if r.Failed {
		outcome = r.Phase + "-hook-" + r.How
	}
	if op.DisableHooks {
		outcome = "hooks-disabled"
	}
	if probe {
		outcome = "hooks-disabled-never-ready"
	}
	c.Outcome(opName(hx.Op{Kind: op.Kind, KeepHistory: op.KeepHistory, Atomic: op.Atomic}) + ":" + outcome)
	if op.Kind == "rollback" && failuresBefore > 0 && !op.DisableHooks {
		c.Floor("rollback-after-failed-upgrade")
		ups := 0
		for _, st := range t.Path {
			if st.Op.Kind == "upgrade" {
				ups++
			}
		}
		if ups == 2 {
			c.Floor("rollback-after-second-upgrade-failed")
		}
		for i, tok := range exp {
			if verbOf(tok) == "DELETE" && why[i] == "before-hook-creation" {
				c.Floor("rollback:leftover-of-failed-upgrade-deleted-first")
			}
		}
	}
	c.Floor("op:" + op.Kind)
	orderFloors(c, hooks, op.Kind, r)
	for i, tok := range exp {
		if verbOf(tok) == "DELETE" {
			switch why[i] {
			case "before-hook-creation":
				c.Floor("stale:deleted-first")
			case "hook-succeeded":
				c.Floor("policy:succeeded-delete")
			case "hook-failed":
				c.Floor("policy:failed-delete")
			case "hook-succeeded/later-wait-failed":
				c.Floor("policy:succeeded-after-later-wait-failure")
			}
		}
	}
	if len(r.Ran) > 0 && after[r.Ran[0]] {
		c.Floor("policy:kept")
	}
	// spellings of the list-valued annotations that are exercised
	for _, raw := range hooksOfPath(t.Path) {
		decorated := func(xs []string) bool {
			for _, x := range xs {
				if x != strings.TrimSpace(x) {
					return true
				}
			}
			return false
		}
		if decorated(raw.Events) && has(r.Ran, raw.Name) {
			c.Floor("spelling:event-list-with-blanks")
		}
		if !decorated(raw.Policies) {
			continue
		}
		c.Floor("spelling:policy-list-with-blanks")
		np := normHooks([]hx.HookSpec{raw})[0].Policies
		for i, tok := range exp {
			if verbOf(tok) == "DELETE" && hookOf(tok) == raw.Name {
				base := strings.SplitN(why[i], "/", 2)[0]
				if len(np) > 1 && np[0] != base && has(np, base) {
					c.Floor("spelling:policy-not-first-decides")
				}
			}
		}
	}
	switch {
	case r.How == "create-conflict":
		c.Floor("stale:conflict")
	case r.How == "create-rejected":
		c.Floor("fault:create-rejected")
	case r.How == "wait":
		c.Floor("fault:wait")
	}
	if r.Failed {
		c.Floor("gate:" + r.Phase + "-failed")
		if r.Skipped > 0 {
			c.Floor("gate:later-hook-skipped")
		}
	}
	if op.DisableHooks {
		c.Floor("disabled")
	}
	if op.KeepHistory && r.Failed && r.Phase == "post" {
		c.Floor("uninstall:keep-history-post-hook-failed")
	}
	seenRan := map[string]bool{}
	for _, h := range r.Ran {
		if seenRan[h] {
			c.Floor("hook-in-both-phases")
		}
		seenRan[h] = true
	}
	if t.Faulty == 1 && len(exp) >= 7 && t.Depth >= 2 {
		c.Sample(map[string]any{"driver": t.Driver, "init": initName(t.Init), "history": hist, "expected_trace": exp, "observed_trace": obs, "error": res.Err})
	}

	// clause: hooks disabled => no request at all on a hook object (including the
	// operations Helm starts on its own for --atomic)
	if op.DisableHooks && len(hookReqs) > 0 {
		violate("disabled", "hook-request-with-hooks-disabled", fmt.Sprintf("hooks are disabled but the server saw %v", hookReqs))
	}
	if probe {
		// the log also holds the automatic rollback / uninstall: only the clause above applies
		if res.Failed {
			c.Floor("disabled:atomic-" + op.Kind + "-undone")
		}
		lastBad = t
		return
	}
	hookFailedObserved := false
	for _, tok := range obs {
		if (verbOf(tok) == "POST" || verbOf(tok) == "WAIT") && strings.HasSuffix(tok, " fail") {
			hookFailedObserved = true
		}
	}
	if !r.Failed && res.Failed && !hookFailedObserved {
		// The operation failed although no hook failed, neither in the reference nor in
		// the log. The statement says nothing about that and the rest of the trace is
		// not comparable; the history is not searched on from here.
		c.Count("op_failed_without_hook_failure", 1)
		if !noted {
			noted = true
			c.Note("operation failed without a hook failure, e.g. %v: %s", hist, res.Err)
		}
		lastBad = t
		return
	}
	// A rollback that follows a failed upgrade may find the release resources
	// already in the target state and send no mutation at all: then there is no
	// release-resource mutation the hooks could be misplaced against.
	if op.Kind == "rollback" && failuresBefore > 0 && !has(obs, "RES") {
		var e2, w2 []string
		for i, tok := range exp {
			if tok != "RES" {
				e2, w2 = append(e2, tok), append(w2, why[i])
			}
		}
		exp, why = e2, w2
	}
	// clauses on the ordered trace
	if strings.Join(exp, ";") != strings.Join(obs, ";") {
		clause, detail := classify(exp, why, obs, r, op.DisableHooks, hooks, op.Kind)
		if !(clause == "disabled" && op.DisableHooks && len(hookReqs) > 0) {
			violate(clause, detail, "request log differs from the reference trace")
		}
	}
	// clause: a failing hook fails the operation
	if r.Failed && !res.Failed {
		violate("error", r.Phase+"-hook-failure-not-reported", fmt.Sprintf("a %s-%s hook failed (%s) but the operation reported success", r.Phase, eventOf[op.Kind], r.How))
	}
	// clause: pre-hook failure => no release resource created, changed or deleted (state, not only requests)
	if r.Failed && r.Phase == "pre" {
		pre, post := t.Pre.NonRecordObjects(), t.Post.NonRecordObjects()
		for _, h := range hooks {
			delete(pre, hookPath(h.Kind, h.Name))
			delete(post, hookPath(h.Kind, h.Name))
		}
		cr, ch, de := hx.DiffObjects(pre, post)
		if len(cr)+len(ch)+len(de) > 0 {
			violate("gate", "release-resources-changed-after-pre-hook-failure", fmt.Sprintf("created=%v changed=%v deleted=%v", cr, ch, de))
		}
	}
	// clause: hook objects are present afterwards exactly as the policies say
	for _, h := range hooks {
		_, live := t.Post.Sim.Get(hookPath(h.Kind, h.Name))
		if live != after[h.Name] && strings.Join(exp, ";") == strings.Join(obs, ";") {
			violate("policy", "hook-object-presence", fmt.Sprintf("hook %s present=%v, reference says %v (was %v before)", h.Name, live, after[h.Name], before[h.Name]))
		}
	}
	// clause: hook resources are never part of the release manifest
	for _, rel := range t.PostHist {
		docs, err := hx.ParseManifest(rel.Manifest)
		if err != nil {
			continue
		}
		for _, d := range docs {
			md, _ := d.Obj["metadata"].(map[string]any)
			an, _ := md["annotations"].(map[string]any)
			_, isHook := an["helm.sh/hook"]
			for _, h := range hooks {
				if d.Kind == h.Kind && d.Name == h.Name {
					isHook = true
				}
			}
			if isHook {
				violate("manifest", "hook-in-release-manifest", fmt.Sprintf("revision %d manifest contains hook %s/%s", rel.Version, d.Kind, d.Name))
			}
		}
	}
}
