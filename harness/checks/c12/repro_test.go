package c12

// Stand-alone reproduction of the C12 finding against Helm's public API, with
// a hand-written recording kube client (no simulated API server, no explorer):
// a pre-install hook h1 with policy hook-succeeded succeeds, the next hook h2
// fails. If h2 fails while being *watched*, h1 is deleted; if h2 fails while
// being *created*, h1 is left behind.

import (
	"errors"
	"io"
	"regexp"
	"strings"
	"testing"
	"time"

	"helm.sh/helm/v4/pkg/action"
	chart "helm.sh/helm/v4/pkg/chart/v2"
	chartutil "helm.sh/helm/v4/pkg/chart/v2/util"
	"helm.sh/helm/v4/pkg/kube"
	"helm.sh/helm/v4/pkg/storage"
	"helm.sh/helm/v4/pkg/storage/driver"
)

type recClient struct {
	last              string // names in the most recent Build
	log               []string
	failCreate, failW string
}

var nameRe = regexp.MustCompile(`(?m)^  name: (\S+)`)

func (c *recClient) Build(r io.Reader, _ bool) (kube.ResourceList, error) {
	b, _ := io.ReadAll(r)
	var names []string
	for _, m := range nameRe.FindAllStringSubmatch(string(b), -1) {
		names = append(names, m[1])
	}
	c.last = strings.Join(names, ",")
	return kube.ResourceList{}, nil
}
func (c *recClient) Create(kube.ResourceList) (*kube.Result, error) {
	if c.last == c.failCreate {
		c.log = append(c.log, "create "+c.last+" REJECTED")
		return nil, errors.New("forbidden")
	}
	c.log = append(c.log, "create "+c.last)
	return &kube.Result{}, nil
}
func (c *recClient) Delete(kube.ResourceList) (*kube.Result, []error) {
	c.log = append(c.log, "delete "+c.last)
	return &kube.Result{}, nil
}
func (c *recClient) Update(_, _ kube.ResourceList, _ bool) (*kube.Result, error) {
	return &kube.Result{}, nil
}
func (c *recClient) IsReachable() error                               { return nil }
func (c *recClient) GetWaiter(kube.WaitStrategy) (kube.Waiter, error) { return c, nil }
func (c *recClient) Wait(kube.ResourceList, time.Duration) error      { return nil }
func (c *recClient) WaitWithJobs(kube.ResourceList, time.Duration) error {
	return nil
}
func (c *recClient) WaitForDelete(kube.ResourceList, time.Duration) error { return nil }
func (c *recClient) WatchUntilReady(kube.ResourceList, time.Duration) error {
	if c.last == c.failW {
		c.log = append(c.log, "watch "+c.last+" FAILED")
		return errors.New("hook failed")
	}
	return nil
}

func hookDoc(name, weight, policy string) []byte {
	return []byte("apiVersion: v1\nkind: ConfigMap\nmetadata:\n  name: " + name + "\n  annotations:\n    helm.sh/hook: pre-install\n    helm.sh/hook-weight: \"" + weight + "\"\n" + policy)
}

func installWith(t *testing.T, kc *recClient) []string {
	t.Helper()
	cfg := &action.Configuration{KubeClient: kc, Releases: storage.Init(driver.NewMemory()), Capabilities: chartutil.DefaultCapabilities.Copy()}
	in := action.NewInstall(cfg)
	in.ReleaseName, in.Namespace, in.Timeout = "r", "default", time.Second
	ch := &chart.Chart{Metadata: &chart.Metadata{Name: "c", Version: "1", APIVersion: "v2"}, Templates: []*chart.File{
		{Name: "templates/h1.yaml", Data: hookDoc("h1", "0", "    helm.sh/hook-delete-policy: hook-succeeded\n")},
		{Name: "templates/h2.yaml", Data: hookDoc("h2", "1", "")},
		{Name: "templates/a.yaml", Data: []byte("apiVersion: v1\nkind: ConfigMap\nmetadata:\n  name: a\n")},
	}}
	if _, err := in.Run(ch, map[string]any{}); err == nil {
		t.Fatalf("install must fail")
	}
	return kc.log
}

func TestReproSucceededHookLeftBehindWhenLaterCreateFails(t *testing.T) {
	watch := installWith(t, &recClient{failW: "h2"})
	create := installWith(t, &recClient{failCreate: "h2"})
	t.Logf("h2 fails while watched : %v", watch)
	t.Logf("h2 fails while created : %v", create)
	if !has(watch, "delete h1") {
		t.Fatalf("expected h1 to be deleted when h2's watch fails")
	}
	if has(create, "delete h1") {
		t.Logf("h1 is deleted in both cases: the finding is repaired")
	} else {
		t.Logf("FINDING REPRODUCED: h1 (hook-succeeded) ran successfully but is not deleted when the creation of h2 is refused")
	}
}
