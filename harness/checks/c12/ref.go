package c12

import (
	"sort"
	"strings"

	"verif/harness/internal/hx"
)

// ---------------------------------------------------------------------------
// Reference trace generator. Written from the property's statement and the
// documented meaning of the hook annotations; it shares no code with Helm's
// hooks.go. Input: the operation, the chart's hook set, hooks disabled or
// not, which request of which hook fails, and the hook objects present in
// the cluster before the operation. Output: the expected ordered list of
// effective requests on hook objects, with the block of release-resource
// mutations ("RES") and the readiness wait ("READY") placed between the pre
// and the post hooks; `present` is updated to the objects expected afterwards.
// ---------------------------------------------------------------------------

// earlierSucceededCovered selects the reading of "hooks are deleted after
// success or failure exactly when their policy says so" for the case that a
// later hook of the same event cannot even be created:
//
//	true  (used): a hook that ran and succeeded is deleted when its policy has
//	      hook-succeeded, whatever makes the event fail afterwards; the hook
//	      whose creation was refused never existed, so nothing is deleted for it.
//	false: the earlier hooks are left behind in that case (what hooks.go does).
const earlierSucceededCovered = true

// refFault: the Occ-th (0-based) create request ("POST") or completion wait
// ("WAIT") of hook Hook inside this operation fails.
type refFault struct {
	Verb, Hook string
	Occ        int
}

type refResult struct {
	Trace   []string
	Why     []string // parallel to Trace: the policy behind a DELETE token
	Failed  bool
	Phase   string   // pre | post: the phase whose hook failed
	How     string   // create-rejected | create-conflict | wait
	Ran     []string // hooks created, in order
	Skipped int      // selected hooks that must not run because an earlier one failed
	Deleted bool     // the release was already uninstalled by an earlier step: nothing may happen
}

var eventOf = map[string]string{"install": "install", "upgrade": "upgrade", "rollback": "rollback", "uninstall": "delete"}

func has(xs []string, s string) bool {
	for _, x := range xs {
		if x == s {
			return true
		}
	}
	return false
}

// normHooks reads the annotations the way they are documented: the hook and
// the hook-delete-policy annotations are comma separated lists whose elements are
// taken without surrounding white space and without regard to case.
func normHooks(hooks []hx.HookSpec) []hx.HookSpec {
	norm := func(xs []string) []string {
		if xs == nil {
			return nil
		}
		out := make([]string, len(xs))
		for i, x := range xs {
			out[i] = strings.ToLower(strings.TrimSpace(x))
		}
		return out
	}
	out := make([]hx.HookSpec, len(hooks))
	for i, h := range hooks {
		h.Events, h.Policies = norm(h.Events), norm(h.Policies)
		if h.WeightRaw != "" {
			h.Weight = decimalWeight(h.WeightRaw)
		}
		out[i] = h
	}
	return out
}

// decimalWeight reads a hook-weight annotation the way Helm documents and (on the
// unchanged tree, strconv.Atoi) does: an optional sign followed by decimal digits,
// leading zeros included ("010" is ten); anything else - blanks, "0x10", "1e3",
// an empty string, a number outside the int range - counts as weight 0.
func decimalWeight(s string) int {
	neg, d := false, s
	if strings.HasPrefix(d, "+") || strings.HasPrefix(d, "-") {
		neg, d = d[0] == '-', d[1:]
	}
	if d == "" {
		return 0
	}
	n := 0
	for _, c := range d {
		if c < '0' || c > '9' || n > (1<<62)/10 {
			return 0
		}
		n = n*10 + int(c-'0')
	}
	if neg {
		return -n
	}
	return n
}

func refOp(kind string, hooks []hx.HookSpec, disabled bool, f *refFault, present map[string]bool) refResult {
	hooks = normHooks(hooks)
	var r refResult
	occ := map[string]int{}
	hit := func(verb, h string) bool {
		n := occ[verb+" "+h]
		occ[verb+" "+h] = n + 1
		return f != nil && f.Verb == verb && f.Hook == h && f.Occ == n
	}
	emit := func(tok, why string) { r.Trace = append(r.Trace, tok); r.Why = append(r.Why, why) }
	phase := func(p string) bool {
		var sel []hx.HookSpec
		for _, h := range hooks {
			if has(h.Events, p+"-"+eventOf[kind]) {
				sel = append(sel, h)
			}
		}
		sort.SliceStable(sel, func(i, j int) bool {
			if sel[i].Weight != sel[j].Weight {
				return sel[i].Weight < sel[j].Weight
			}
			return sel[i].Name < sel[j].Name
		})
		var done []hx.HookSpec
		sweep := func(why string) { // hooks that succeeded and say hook-succeeded
			for _, d := range done {
				if has(d.Policies, "hook-succeeded") {
					emit("DELETE "+d.Name, why)
					delete(present, d.Name)
				}
			}
		}
		for i, h := range sel {
			pol := h.Policies
			if len(pol) == 0 {
				pol = []string{"before-hook-creation"}
			}
			if has(pol, "before-hook-creation") && present[h.Name] {
				emit("DELETE "+h.Name, "before-hook-creation")
				delete(present, h.Name)
			}
			rejected := hit("POST", h.Name)
			if rejected || present[h.Name] {
				emit("POST "+h.Name+" fail", "")
				r.How = "create-conflict"
				if rejected {
					r.How = "create-rejected"
				}
				if earlierSucceededCovered {
					sweep("hook-succeeded/later-create-failed")
				}
				r.Skipped = len(sel) - i - 1
				return false
			}
			emit("POST "+h.Name+" ok", "")
			present[h.Name] = true
			r.Ran = append(r.Ran, h.Name)
			if hit("WAIT", h.Name) {
				emit("WAIT "+h.Name+" fail", "")
				r.How = "wait"
				if has(pol, "hook-failed") {
					emit("DELETE "+h.Name, "hook-failed")
					delete(present, h.Name)
				}
				sweep("hook-succeeded/later-wait-failed")
				r.Skipped = len(sel) - i - 1
				return false
			}
			emit("WAIT "+h.Name+" ok", "")
			done = append(done, h)
		}
		sweep("hook-succeeded")
		return true
	}
	if !disabled && !phase("pre") {
		r.Failed, r.Phase = true, "pre"
		return r
	}
	emit("RES", "")
	emit("READY", "")
	if !disabled && !phase("post") {
		r.Failed, r.Phase = true, "post"
	}
	return r
}
