// Package checks links every property check into the verif binary.
package checks

import (
	_ "verif/harness/checks/c01"
	_ "verif/harness/checks/c02"
	_ "verif/harness/checks/c03"
	_ "verif/harness/checks/c04"
	_ "verif/harness/checks/c05"
	_ "verif/harness/checks/c06"
	_ "verif/harness/checks/c07"
	_ "verif/harness/checks/c08"
	_ "verif/harness/checks/c09"
	_ "verif/harness/checks/c10"
	_ "verif/harness/checks/c11"
	_ "verif/harness/checks/c12"
	_ "verif/harness/checks/c13"
	_ "verif/harness/checks/c14"
	_ "verif/harness/checks/c15"
	_ "verif/harness/checks/c16"
	_ "verif/harness/checks/c17"
	_ "verif/harness/checks/c18"
	_ "verif/harness/checks/c19"
	_ "verif/harness/checks/c20"
)
