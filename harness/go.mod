module verif/harness

go 1.24.0

require (
	helm.sh/helm/v4 v4.0.0
	k8s.io/client-go v0.32.3
	sigs.k8s.io/yaml v1.4.0
)

require (
	github.com/Masterminds/semver/v3 v3.3.0 // indirect
	github.com/Masterminds/squirrel v1.5.4 // indirect
	github.com/davecgh/go-spew v1.1.2-0.20180830191138-d8f796af33cc // indirect
	github.com/emicklei/go-restful/v3 v3.12.1 // indirect
	github.com/fxamacker/cbor/v2 v2.7.0 // indirect
	github.com/go-gorp/gorp/v3 v3.1.0 // indirect
	github.com/go-logr/logr v1.4.2 // indirect
	github.com/go-openapi/jsonpointer v0.21.0 // indirect
	github.com/go-openapi/jsonreference v0.21.0 // indirect
	github.com/go-openapi/swag v0.23.0 // indirect
	github.com/gogo/protobuf v1.3.2 // indirect
	github.com/golang/protobuf v1.5.4 // indirect
	github.com/google/gnostic-models v0.6.9 // indirect
	github.com/google/go-cmp v0.6.0 // indirect
	github.com/google/gofuzz v1.2.0 // indirect
	github.com/google/uuid v1.6.0 // indirect
	github.com/jmoiron/sqlx v1.4.0 // indirect
	github.com/josharian/intern v1.0.0 // indirect
	github.com/json-iterator/go v1.1.12 // indirect
	github.com/lann/builder v0.0.0-20180802200727-47ae307949d0 // indirect
	github.com/lann/ps v0.0.0-20150810152359-62de8c46ede0 // indirect
	github.com/lib/pq v1.10.9 // indirect
	github.com/mailru/easyjson v0.9.0 // indirect
	github.com/modern-go/concurrent v0.0.0-20180306012644-bacd9c7ef1dd // indirect
	github.com/modern-go/reflect2 v1.0.2 // indirect
	github.com/munnerz/goautoneg v0.0.0-20191010083416-a7dc8b61c822 // indirect
	github.com/pkg/errors v0.9.1 // indirect
	github.com/rubenv/sql-migrate v1.8.0 // indirect
	github.com/x448/float16 v0.8.4 // indirect
	golang.org/x/net v0.38.0 // indirect
	golang.org/x/oauth2 v0.28.0 // indirect
	golang.org/x/sys v0.32.0 // indirect
	golang.org/x/term v0.31.0 // indirect
	golang.org/x/text v0.24.0 // indirect
	golang.org/x/time v0.9.0 // indirect
	google.golang.org/protobuf v1.36.4 // indirect
	gopkg.in/evanphx/json-patch.v4 v4.12.0 // indirect
	gopkg.in/inf.v0 v0.9.1 // indirect
	gopkg.in/yaml.v3 v3.0.1 // indirect
	k8s.io/api v0.32.3 // indirect
	k8s.io/apimachinery v0.32.3 // indirect
	k8s.io/klog/v2 v2.130.1 // indirect
	k8s.io/kube-openapi v0.0.0-20241212222426-2c72e554b1e7 // indirect
	k8s.io/utils v0.0.0-20241210054802-24370beab758 // indirect
	sigs.k8s.io/json v0.0.0-20241014173422-cfa47c3a1cc8 // indirect
	sigs.k8s.io/structured-merge-diff/v4 v4.5.0 // indirect
)

replace helm.sh/helm/v4 => /repo
