// Package sim is a simulated Kubernetes API server placed behind the real
// kube.Client and the real Secret/ConfigMap storage drivers as an in-process
// http.RoundTripper. It keeps an object store, an ordered request log, and
// lets the explorer inject one fault (or a process death) per operation.
package sim

import (
	"bytes"
	"encoding/json"
	"fmt"
	"io"
	"net/http"
	"sort"
	"strings"
	"sync"

	jsonpatch "github.com/evanphx/json-patch"
	"k8s.io/apimachinery/pkg/labels"
	"k8s.io/apimachinery/pkg/runtime/schema"
	"k8s.io/apimachinery/pkg/util/strategicpatch"
	"k8s.io/client-go/kubernetes/scheme"
)

// RecordPrefix is the name prefix of Helm release records.
const RecordPrefix = "sh.helm.release.v1."

// Entry is one line of the server's request log.
type Entry struct {
	Seq     int    `json:"seq"`
	Thread  int    `json:"thread"`
	Verb    string `json:"verb"`
	Path    string `json:"path"`
	Label   string `json:"label"`
	Class   string `json:"class"` // cluster | record-read | record-write | wait | store-read | store-write
	Code    int    `json:"code"`
	Fault   string `json:"fault,omitempty"`
	Applied bool   `json:"applied"` // changed the store
}

func (e Entry) Mutating() bool {
	return e.Verb == "POST" || e.Verb == "PUT" || e.Verb == "PATCH" || e.Verb == "DELETE"
}

// Fault is the single injected deviation of one operation.
type Fault struct {
	// Label + Occurrence select the call the fault hits (labels are stable
	// under reordering inside a concurrent batch, indexes are not).
	Label      string `json:"label"`
	Occurrence int    `json:"occurrence"`
	// Kind: reject | timeout (504, not persisted) | wait-fail | store-fail | crash
	Kind string `json:"kind"`
	// OnThread, when non-zero, restricts the fault to calls of logical thread OnThread-1 (concurrent
	// scenarios); Occurrence then counts that thread's calls with the label only.
	OnThread int `json:"on_thread,omitempty"`
}

func (f *Fault) String() string {
	if f == nil {
		return "none"
	}
	return fmt.Sprintf("%s@%s#%d", f.Kind, f.Label, f.Occurrence)
}

// Call is one faultable call observed during an operation.
type Call struct {
	Label      string `json:"label"`
	Occurrence int    `json:"occurrence"`
	Class      string `json:"class"`
	Mutating   bool   `json:"mutating"`
}

// Sim is the server. The zero value is not usable; use New.
type Sim struct {
	mu   sync.Mutex
	Objs map[string][]byte
	Log  []Entry
	seq  int

	// per-operation state
	fault   *Fault
	occ     map[string]int
	crashed bool
	hit     bool
	Calls   []Call

	// Gate, when set, is called (outside the lock) before a request or
	// storage call is handled; used by the interleaving explorer.
	Gate func(thread int, label string, class string)
	// Done, when set, is called after the request has been handled.
	Done func(thread int, label string, class string)

	// ObsNormalize, when set, canonicalises a response body before it is
	// folded into the observation hash (drops timestamps of release records).
	ObsNormalize func(class string, body []byte) []byte

	// obs holds, per logical thread, a running hash of everything the thread
	// has observed (call label, status code, response body).
	obs map[int]uint64

	// StorageResource is "secrets" or "configmaps" when release records live
	// in the sim, "" for the memory driver.
	StorageResource string
}

func New() *Sim { return &Sim{Objs: map[string][]byte{}, occ: map[string]int{}} }

// Clone copies the object store (values are never mutated in place).
func (s *Sim) Clone() *Sim {
	s.mu.Lock()
	defer s.mu.Unlock()
	c := New()
	for k, v := range s.Objs {
		c.Objs[k] = v
	}
	c.StorageResource = s.StorageResource
	c.ObsNormalize = s.ObsNormalize
	return c
}

// BeginOp resets the per-operation fault state and log.
func (s *Sim) BeginOp(f *Fault) {
	s.mu.Lock()
	defer s.mu.Unlock()
	s.fault = f
	s.occ = map[string]int{}
	s.crashed = false
	s.hit = false
	s.Calls = nil
	s.Log = nil
}

// Observe folds one observation into the thread's observation hash.
func (s *Sim) Observe(thread int, label string, code int, body []byte) {
	s.observe(thread, label, "", code, body)
}

func (s *Sim) observe(thread int, label, class string, code int, body []byte) {
	if s.ObsNormalize != nil && class != "" {
		body = s.ObsNormalize(class, body)
	}
	s.mu.Lock()
	if s.obs == nil {
		s.obs = map[int]uint64{}
	}
	h := s.obs[thread]
	mix := func(b []byte) {
		for _, c := range b {
			h ^= uint64(c)
			h *= 1099511628211
		}
	}
	if h == 0 {
		h = 14695981039346656037
	}
	mix([]byte(label))
	mix([]byte{byte(code), byte(code >> 8), 0xff})
	mix(body)
	s.obs[thread] = h
	s.mu.Unlock()
}

// ObsHash returns the observation hash of a thread.
func (s *Sim) ObsHash(thread int) uint64 { s.mu.Lock(); defer s.mu.Unlock(); return s.obs[thread] }

// ForceCrash makes every later call fail without effect (used to drain
// abandoned executions).
func (s *Sim) ForceCrash() { s.mu.Lock(); s.crashed = true; s.mu.Unlock() }

// FaultHit reports whether the planned fault was reached.
func (s *Sim) FaultHit() bool { s.mu.Lock(); defer s.mu.Unlock(); return s.hit }

// Crashed reports whether the emulated process death has happened.
func (s *Sim) Crashed() bool { s.mu.Lock(); defer s.mu.Unlock(); return s.crashed }

// Enter registers a faultable call and returns the fault kind that applies to
// it ("" = none). Reads of release records are logged but never faulted,
// except after a crash, when every call fails without effect.
func (s *Sim) Enter(thread int, label, class string, mutating bool) string {
	if s.Gate != nil {
		s.Gate(thread, label, class)
	}
	s.mu.Lock()
	defer s.mu.Unlock()
	if s.crashed {
		return "crash"
	}
	if class == "record-read" || class == "store-read" {
		return ""
	}
	n := s.occ[label]
	s.occ[label] = n + 1
	s.Calls = append(s.Calls, Call{Label: label, Occurrence: n, Class: class, Mutating: mutating})
	if s.fault != nil && s.fault.OnThread != 0 {
		if s.fault.OnThread != thread+1 {
			return ""
		}
		tk := fmt.Sprintf("\x00%d|%s", thread, label)
		n = s.occ[tk]
		s.occ[tk] = n + 1
	}
	if s.fault != nil && !s.hit && s.fault.Label == label && s.fault.Occurrence == n {
		s.hit = true
		if s.fault.Kind == "crash" {
			s.crashed = true
		}
		return s.fault.Kind
	}
	return ""
}

// LogEntry appends to the request log.
func (s *Sim) LogEntry(e Entry) {
	s.mu.Lock()
	s.seq++
	e.Seq = s.seq
	s.Log = append(s.Log, e)
	s.mu.Unlock()
}

// Transport returns a RoundTripper bound to a logical thread id.
func (s *Sim) Transport(thread int) http.RoundTripper { return &transport{s: s, thread: thread} }

type transport struct {
	s      *Sim
	thread int
}

type parsed struct {
	group, version, ns, resource, name string
	prefix                             string // collection path
}

func parsePath(p string) (parsed, bool) {
	var out parsed
	segs := strings.Split(strings.Trim(p, "/"), "/")
	var rest []string
	switch {
	case len(segs) >= 2 && segs[0] == "api":
		out.version = segs[1]
		rest = segs[2:]
	case len(segs) >= 3 && segs[0] == "apis":
		out.group, out.version = segs[1], segs[2]
		rest = segs[3:]
	default:
		return out, false
	}
	switch len(rest) {
	case 1:
		out.resource = rest[0]
	case 2:
		out.resource, out.name = rest[0], rest[1]
	case 3:
		if rest[0] != "namespaces" {
			return out, false
		}
		out.ns, out.resource = rest[1], rest[2]
	case 4:
		if rest[0] != "namespaces" {
			return out, false
		}
		out.ns, out.resource, out.name = rest[1], rest[2], rest[3]
	default:
		return out, false
	}
	base := "/api/" + out.version
	if segs[0] == "apis" {
		base = "/apis/" + out.group + "/" + storageVersion(out.group, out.version)
	}
	if out.ns != "" {
		base += "/namespaces/" + out.ns
	}
	out.prefix = base + "/" + out.resource
	return out, true
}

// Groups served under several versions: like a real API server the simulated
// one keeps ONE object per (group, resource, namespace, name) and serves it
// under every version of the group; the store key uses the storage version.
var servedVersions = map[string][]string{
	"autoscaling": {"v1", "v2"},
}

// StorePath maps an object's request path to its store key.
func StorePath(path string) string {
	p, ok := parsePath(path)
	if !ok || p.name == "" {
		return path
	}
	return p.prefix + "/" + p.name
}

// MultiVersion reports whether the group is served under several versions.
func MultiVersion(group string) bool { _, ok := servedVersions[group]; return ok }

func storageVersion(group, version string) string {
	if vs, ok := servedVersions[group]; ok {
		for _, v := range vs {
			if v == version {
				return vs[0]
			}
		}
	}
	return version
}

// served rewrites the apiVersion of a stored object to the version the request
// was addressed to (conversion is the identity on the fields the harness uses).
func served(b []byte, p parsed) []byte {
	if _, ok := servedVersions[p.group]; !ok {
		return b
	}
	var m map[string]any
	if json.Unmarshal(b, &m) != nil {
		return b
	}
	if _, ok := m["apiVersion"]; !ok {
		return b
	}
	m["apiVersion"] = p.group + "/" + p.version
	out, _ := json.Marshal(m)
	return out
}

// ObjPath builds the store key of an object.
func ObjPath(group, version, ns, resource, name string) string {
	base := "/api/" + version
	if group != "" {
		base = "/apis/" + group + "/" + storageVersion(group, version)
	}
	if ns != "" {
		base += "/namespaces/" + ns
	}
	return base + "/" + resource + "/" + name
}

var kindOf = map[string]string{
	"configmaps": "ConfigMap", "secrets": "Secret", "services": "Service", "serviceaccounts": "ServiceAccount",
	"pods": "Pod", "namespaces": "Namespace", "jobs": "Job", "deployments": "Deployment", "widgets": "Widget",
	"persistentvolumeclaims": "PersistentVolumeClaim", "customresourcedefinitions": "CustomResourceDefinition",
	"roles": "Role", "rolebindings": "RoleBinding", "gadgets": "Gadget", "daemonsets": "DaemonSet", "statefulsets": "StatefulSet",
	"replicasets": "ReplicaSet", "ingresses": "Ingress", "networkpolicies": "NetworkPolicy", "cronjobs": "CronJob",
	"limitranges": "LimitRange", "resourcequotas": "ResourceQuota", "endpoints": "Endpoints",
	"clusterroles": "ClusterRole", "horizontalpodautoscalers": "HorizontalPodAutoscaler",
}

func status(code int, reason, msg string) []byte {
	b, _ := json.Marshal(map[string]any{"kind": "Status", "apiVersion": "v1", "metadata": map[string]any{}, "status": "Failure", "message": msg, "reason": reason, "code": code})
	return b
}

func resp(req *http.Request, code int, body []byte) *http.Response {
	return &http.Response{StatusCode: code, Status: fmt.Sprintf("%d %s", code, http.StatusText(code)), Proto: "HTTP/1.1", ProtoMajor: 1, ProtoMinor: 1,
		Header: http.Header{"Content-Type": []string{"application/json"}}, Body: io.NopCloser(bytes.NewReader(body)), ContentLength: int64(len(body)), Request: req}
}

func (t *transport) RoundTrip(req *http.Request) (*http.Response, error) {
	s := t.s
	var body []byte
	if req.Body != nil {
		body, _ = io.ReadAll(req.Body)
		req.Body.Close()
	}
	path := req.URL.Path
	if path == "/version" {
		label := "GET /version"
		f := s.Enter(t.thread, label, "cluster", false)
		e := Entry{Thread: t.thread, Verb: "GET", Path: path, Label: label, Class: "cluster", Code: 200, Fault: f}
		var r *http.Response
		if f != "" {
			e.Code = 403
			r = resp(req, 403, status(403, "Forbidden", "injected: "+f))
		} else {
			r = resp(req, 200, []byte(`{"major":"1","minor":"20","gitVersion":"v1.20.0","platform":"sim/amd64"}`))
		}
		s.LogEntry(e)
		s.Observe(t.thread, label, e.Code, nil)
		if s.Done != nil {
			s.Done(t.thread, label, "cluster")
		}
		return r, nil
	}
	p, ok := parsePath(path)
	if !ok {
		s.LogEntry(Entry{Thread: t.thread, Verb: req.Method, Path: path, Label: req.Method + " " + path, Class: "cluster", Code: 404})
		return resp(req, 404, status(404, "NotFound", "sim: unknown path "+path)), nil
	}
	name := p.name
	if req.Method == "POST" && name == "" {
		var m struct {
			Metadata struct {
				Name string `json:"name"`
			} `json:"metadata"`
		}
		json.Unmarshal(body, &m)
		name = m.Metadata.Name
	}
	isRecord := s.StorageResource != "" && p.resource == s.StorageResource && p.group == "" &&
		(strings.HasPrefix(name, RecordPrefix) || (name == "" && strings.Contains(req.URL.Query().Get("labelSelector"), "owner")))
	mut := req.Method == "POST" || req.Method == "PUT" || req.Method == "PATCH" || req.Method == "DELETE"
	class := "cluster"
	if isRecord {
		class = "record-read"
		if mut {
			class = "record-write"
		}
	}
	label := req.Method + " " + p.resource
	if name != "" {
		label += "/" + name
	}
	if p.ns != "" && p.ns != "default" {
		label += "@" + p.ns
	}
	f := s.Enter(t.thread, label, class, mut)
	e := Entry{Thread: t.thread, Verb: req.Method, Path: path, Label: label, Class: class, Fault: f}
	var code int
	var out []byte
	if f == "timeout" {
		// the request times out at the server without having been persisted
		code, out = 504, status(504, "Timeout", "injected: "+f)
	} else if f != "" {
		code, out = 403, status(403, "Forbidden", "injected: "+f)
	} else {
		s.mu.Lock()
		code, out, e.Applied = s.handle(req, p, name, body)
		s.mu.Unlock()
	}
	e.Code = code
	s.LogEntry(e)
	s.observe(t.thread, label, class, code, out)
	if s.Done != nil {
		s.Done(t.thread, label, class)
	}
	return resp(req, code, out), nil
}

// handle executes the request against the store; caller holds the lock.
func (s *Sim) handle(req *http.Request, p parsed, name string, body []byte) (int, []byte, bool) {
	q := req.URL.Query()
	if q.Get("watch") == "true" || q.Get("watch") == "1" {
		return 400, status(400, "BadRequest", "sim: watch not supported"), false
	}
	key := p.prefix + "/" + name
	switch req.Method {
	case "GET":
		if p.name != "" {
			if b, ok := s.Objs[key]; ok {
				return 200, served(b, p), false
			}
			return 404, status(404, "NotFound", fmt.Sprintf("%s %q not found", p.resource, p.name)), false
		}
		sel := labels.Everything()
		if ls := q.Get("labelSelector"); ls != "" {
			var err error
			if sel, err = labels.Parse(ls); err != nil {
				return 400, status(400, "BadRequest", err.Error()), false
			}
		}
		fieldName := ""
		if fs := q.Get("fieldSelector"); strings.HasPrefix(fs, "metadata.name=") {
			fieldName = strings.TrimPrefix(fs, "metadata.name=")
		}
		var keys []string
		for k := range s.Objs {
			if strings.HasPrefix(k, p.prefix+"/") {
				keys = append(keys, k)
			}
		}
		sort.Strings(keys)
		items := []json.RawMessage{}
		for _, k := range keys {
			var m struct {
				Metadata struct {
					Name   string            `json:"name"`
					Labels map[string]string `json:"labels"`
				} `json:"metadata"`
			}
			json.Unmarshal(s.Objs[k], &m)
			if !sel.Matches(labels.Set(m.Metadata.Labels)) {
				continue
			}
			if fieldName != "" && m.Metadata.Name != fieldName {
				continue
			}
			items = append(items, served(s.Objs[k], p))
		}
		kind := kindOf[p.resource]
		if kind == "" {
			kind = "Unknown"
		}
		av := p.version
		if p.group != "" {
			av = p.group + "/" + p.version
		}
		b, _ := json.Marshal(map[string]any{"kind": kind + "List", "apiVersion": av, "metadata": map[string]any{}, "items": items})
		return 200, b, false
	case "POST":
		if p.name != "" {
			return 405, status(405, "MethodNotAllowed", "POST on object"), false
		}
		if name == "" {
			return 422, status(422, "Invalid", "metadata.name required"), false
		}
		if _, ok := s.Objs[key]; ok {
			return 409, status(409, "AlreadyExists", fmt.Sprintf("%s %q already exists", p.resource, name)), false
		}
		s.Objs[key] = normalise(body, p.ns)
		return 201, served(s.Objs[key], p), true
	case "PUT":
		if _, ok := s.Objs[key]; !ok {
			return 404, status(404, "NotFound", fmt.Sprintf("%s %q not found", p.resource, p.name)), false
		}
		s.Objs[key] = normalise(body, p.ns)
		return 200, served(s.Objs[key], p), true
	case "PATCH":
		cur, ok := s.Objs[key]
		if !ok {
			return 404, status(404, "NotFound", fmt.Sprintf("%s %q not found", p.resource, p.name)), false
		}
		cur = served(cur, p)
		ct := req.Header.Get("Content-Type")
		var patched []byte
		var err error
		switch {
		case strings.HasPrefix(ct, "application/strategic-merge-patch+json"):
			kind := kindOf[p.resource]
			obj, e2 := scheme.Scheme.New(schema.GroupVersionKind{Group: p.group, Version: p.version, Kind: kind})
			if e2 != nil {
				return 415, status(415, "UnsupportedMediaType", "strategic merge patch on unregistered kind "+kind), false
			}
			patched, err = strategicpatch.StrategicMergePatch(cur, body, obj)
		case strings.HasPrefix(ct, "application/merge-patch+json"):
			patched, err = jsonpatch.MergePatch(cur, body)
		default:
			return 415, status(415, "UnsupportedMediaType", "sim: patch type "+ct), false
		}
		if err != nil {
			return 422, status(422, "Invalid", err.Error()), false
		}
		s.Objs[key] = normalise(patched, p.ns)
		return 200, served(s.Objs[key], p), true
	case "DELETE":
		if p.name == "" {
			return 405, status(405, "MethodNotAllowed", "collection delete not supported"), false
		}
		if _, ok := s.Objs[key]; !ok {
			return 404, status(404, "NotFound", fmt.Sprintf("%s %q not found", p.resource, p.name)), false
		}
		delete(s.Objs, key)
		b, _ := json.Marshal(map[string]any{"kind": "Status", "apiVersion": "v1", "metadata": map[string]any{}, "status": "Success"})
		return 200, b, true
	}
	return 405, status(405, "MethodNotAllowed", req.Method), false
}

// normalise re-marshals a JSON object with sorted keys (so equal objects are
// byte-equal) and fills metadata.namespace the way the API server does.
func normalise(b []byte, ns string) []byte {
	var m map[string]any
	if err := json.Unmarshal(b, &m); err != nil {
		return b
	}
	if ns != "" {
		md, _ := m["metadata"].(map[string]any)
		if md == nil {
			md = map[string]any{}
			m["metadata"] = md
		}
		if _, ok := md["namespace"]; !ok {
			md["namespace"] = ns
		}
	}
	out, err := json.Marshal(m)
	if err != nil {
		return b
	}
	return out
}

// Put places an object directly into the store (environment steps, initial
// states); obj is any JSON-marshalable value.
func (s *Sim) Put(path string, obj any) {
	b, _ := json.Marshal(obj)
	ns := ""
	if p, ok := parsePath(path); ok {
		ns = p.ns
	}
	s.mu.Lock()
	s.Objs[path] = normalise(b, ns)
	s.mu.Unlock()
}

// Remove deletes an object directly.
func (s *Sim) Remove(path string) { s.mu.Lock(); delete(s.Objs, path); s.mu.Unlock() }

// Get returns the stored JSON of an object.
func (s *Sim) Get(path string) ([]byte, bool) {
	s.mu.Lock()
	defer s.mu.Unlock()
	b, ok := s.Objs[path]
	return b, ok
}

// Paths lists all object paths, sorted.
func (s *Sim) Paths() []string {
	s.mu.Lock()
	defer s.mu.Unlock()
	var ks []string
	for k := range s.Objs {
		ks = append(ks, k)
	}
	sort.Strings(ks)
	return ks
}

// IsRecordPath reports whether the path holds a Helm release record.
func IsRecordPath(path string) bool {
	i := strings.LastIndex(path, "/")
	return i >= 0 && strings.HasPrefix(path[i+1:], RecordPrefix)
}

// SnapshotLog returns a copy of the current request log.
func (s *Sim) SnapshotLog() []Entry {
	s.mu.Lock()
	defer s.mu.Unlock()
	return append([]Entry{}, s.Log...)
}

// SnapshotCalls returns the faultable calls of the current operation.
func (s *Sim) SnapshotCalls() []Call {
	s.mu.Lock()
	defer s.mu.Unlock()
	return append([]Call{}, s.Calls...)
}
