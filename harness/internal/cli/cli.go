// Package cli implements the command line of the verification harness.
//
//	verif check <Cxx> --tier quick|thorough [--only part] [--shards n]
//	verif worker <Cxx> ...            (internal)
//	verif replay <file> [--quiet]
//	verif list
package cli

import (
	"fmt"
	"io"
	"log"
	"log/slog"
	"os"
	"strconv"
	"strings"

	"verif/harness/internal/core"
)

func Main() {
	// Helm's own logging is noise here.
	log.SetOutput(io.Discard)
	slog.SetDefault(slog.New(slog.NewTextHandler(io.Discard, nil)))
	if len(os.Args) < 2 {
		usage()
	}
	args := os.Args[2:]
	flag := func(name, def string) string {
		for i, a := range args {
			if a == "--"+name && i+1 < len(args) {
				return args[i+1]
			}
			if strings.HasPrefix(a, "--"+name+"=") {
				return strings.TrimPrefix(a, "--"+name+"=")
			}
		}
		return def
	}
	has := func(name string) bool {
		for _, a := range args {
			if a == "--"+name {
				return true
			}
		}
		return false
	}
	seed := int64(0)
	if s := os.Getenv("VERIF_SEED"); s != "" {
		seed, _ = strconv.ParseInt(s, 10, 64)
	}
	if s := flag("seed", ""); s != "" {
		seed, _ = strconv.ParseInt(s, 10, 64)
	}
	tier := flag("tier", os.Getenv("VERIF_TIER"))
	if tier == "" {
		tier = "quick"
	}
	switch os.Args[1] {
	case "list":
		for _, id := range core.IDs() {
			fmt.Println(id)
		}
	case "check":
		if len(args) < 1 {
			usage()
		}
		n, _ := strconv.Atoi(flag("shards", "0"))
		os.Exit(core.CheckMain(args[0], tier, seed, flag("only", ""), n))
	case "worker":
		sh := strings.Split(flag("shard", "0/1"), "/")
		i, _ := strconv.Atoi(sh[0])
		n, _ := strconv.Atoi(sh[1])
		os.Exit(core.WorkerMain(args[0], tier, seed, i, n, flag("only", ""), flag("out", "/dev/null"), flag("mark", "")))
	case "replay":
		if len(args) < 1 {
			usage()
		}
		os.Exit(core.ReplayMain(args[0], has("quiet")))
	default:
		usage()
	}
}

func usage() {
	fmt.Fprintln(os.Stderr, "usage: verif check <Cxx> --tier quick|thorough | verif replay <file> | verif list")
	os.Exit(2)
}
