// Package core is the shared runner of every check: it shards a check over
// worker sub-processes, merges what they covered, classifies violations
// against the committed known-findings file, confirms each new violation by
// deterministic replay, writes the evidence file and produces the exit code
// and VIOLATION / KNOWN-FINDING lines of the interface.
package core

import (
	"crypto/sha256"
	"encoding/hex"
	"encoding/json"
	"fmt"
	"hash/fnv"
	"os"
	"sort"
	"strings"
	"sync"
)

// Violation is one failing case found by a worker.
type Violation struct {
	Property string `json:"property"`
	// Key identifies the *class* of the failing case (operation shape, fault
	// position, input shape ...). Known findings are matched by Key.
	Key string `json:"key"`
	// What is a one-line human description.
	What string `json:"what"`
	// Replay is whatever the check's Replay function needs to re-run exactly
	// this case without the explorer.
	Replay json.RawMessage `json:"replay"`
}

// Result is what one worker shard (or the merged run) covered.
type Result struct {
	Evaluations int64            `json:"evaluations"`
	States      int64            `json:"states"`
	Transitions int64            `json:"transitions"`
	Outcomes    map[string]int64 `json:"outcomes"`
	// Distinct holds 64-bit hashes of distinct non-trivial cases (or canonical
	// states); sets are united across shards.
	Distinct   []uint64          `json:"distinct"`
	StateSet   []uint64          `json:"state_set"`
	Samples    []any             `json:"samples"`
	Violations []Violation       `json:"violations"`
	Exhaustive bool              `json:"exhaustive"`
	Notes      []string          `json:"notes"`
	Counters   map[string]int64  `json:"counters"`
	Extra      map[string]any    `json:"extra"`
	Floors     map[string]bool   `json:"floors"` // vacuity guards reached
	MaxDepth   int               `json:"max_depth"`
	Bounds     map[string]string `json:"bounds"`
}

// Ctx is handed to a check's Run function inside a worker.
type Ctx struct {
	Tier   string
	Seed   int64
	Shard  int
	Shards int
	// Only, when non-empty, restricts the run to a named sub-part (debugging).
	Only string

	mu       sync.Mutex
	res      Result
	distinct map[uint64]struct{}
	states   map[uint64]struct{}
	vkeys    map[string]int
	markFile *os.File
	caseNo   int64
}

func newCtx(tier string, seed int64, shard, shards int) *Ctx {
	return &Ctx{Tier: tier, Seed: seed, Shard: shard, Shards: shards,
		res:      Result{Outcomes: map[string]int64{}, Counters: map[string]int64{}, Extra: map[string]any{}, Floors: map[string]bool{}, Bounds: map[string]string{}, Exhaustive: true},
		distinct: map[uint64]struct{}{}, states: map[uint64]struct{}{}, vkeys: map[string]int{}}
}

// Thorough reports whether the thorough tier was requested.
func (c *Ctx) Thorough() bool { return c.Tier == "thorough" }

// Mine implements static sharding: case i belongs to shard i mod Shards.
func (c *Ctx) Mine(i int64) bool {
	if c.Shards <= 1 {
		return true
	}
	return int(i%int64(c.Shards)) == c.Shard
}

// NextMine increments an internal case counter and reports whether this case
// belongs to the shard. All shards must enumerate cases in the same order.
func (c *Ctx) NextMine() bool {
	i := c.caseNo
	c.caseNo++
	return c.Mine(i)
}

// Mark records the case about to be executed so that a worker that dies
// (fatal error, stack overflow, watchdog kill) can be attributed to it.
func (c *Ctx) Mark(s string) {
	if c.markFile == nil {
		return
	}
	b := []byte(s)
	if len(b) > 8000 {
		b = b[:8000]
	}
	buf := make([]byte, 8192)
	copy(buf, b)
	c.markFile.WriteAt(buf, 0)
}

func (c *Ctx) Eval(n int64) { c.mu.Lock(); c.res.Evaluations += n; c.mu.Unlock() }
func (c *Ctx) Transition(n int64) {
	c.mu.Lock()
	c.res.Transitions += n
	c.mu.Unlock()
}
func (c *Ctx) Count(name string, n int64) { c.mu.Lock(); c.res.Counters[name] += n; c.mu.Unlock() }
func (c *Ctx) Outcome(class string)       { c.mu.Lock(); c.res.Outcomes[class]++; c.mu.Unlock() }
func (c *Ctx) Floor(name string)          { c.mu.Lock(); c.res.Floors[name] = true; c.mu.Unlock() }
func (c *Ctx) Note(format string, a ...any) {
	c.mu.Lock()
	c.res.Notes = append(c.res.Notes, fmt.Sprintf(format, a...))
	c.mu.Unlock()
}
func (c *Ctx) Bound(name, val string) { c.mu.Lock(); c.res.Bounds[name] = val; c.mu.Unlock() }
func (c *Ctx) Depth(d int) {
	c.mu.Lock()
	if d > c.res.MaxDepth {
		c.res.MaxDepth = d
	}
	c.mu.Unlock()
}
func (c *Ctx) SetExtra(k string, v any) { c.mu.Lock(); c.res.Extra[k] = v; c.mu.Unlock() }

// NotExhaustive marks the run as capped and says why.
func (c *Ctx) NotExhaustive(format string, a ...any) {
	c.mu.Lock()
	c.res.Exhaustive = false
	c.res.Notes = append(c.res.Notes, "NOT-EXHAUSTIVE: "+fmt.Sprintf(format, a...))
	c.mu.Unlock()
}

// Distinct records a distinct non-trivial case (by canonical description).
func (c *Ctx) Distinct(canon string) bool {
	h := Hash64(canon)
	c.mu.Lock()
	_, seen := c.distinct[h]
	if !seen {
		c.distinct[h] = struct{}{}
	}
	c.mu.Unlock()
	return !seen
}

// State records a canonical state; reports whether it is new in this shard.
func (c *Ctx) State(canon string) bool {
	h := Hash64(canon)
	c.mu.Lock()
	_, seen := c.states[h]
	if !seen {
		c.states[h] = struct{}{}
	}
	c.mu.Unlock()
	return !seen
}

// StateHash is State for callers that already hold a 64-bit state key.
func (c *Ctx) StateHash(h uint64) bool {
	c.mu.Lock()
	_, seen := c.states[h]
	if !seen {
		c.states[h] = struct{}{}
	}
	c.mu.Unlock()
	return !seen
}

// DistinctHash is Distinct for callers that already hold a 64-bit key.
func (c *Ctx) DistinctHash(h uint64) {
	c.mu.Lock()
	c.distinct[h] = struct{}{}
	c.mu.Unlock()
}

// Sample keeps up to 12 written-out cases per shard.
func (c *Ctx) Sample(v any) {
	c.mu.Lock()
	if len(c.res.Samples) < 12 {
		c.res.Samples = append(c.res.Samples, v)
	}
	c.mu.Unlock()
}

// Violate records a violation; at most 3 replays are kept per key per shard
// (the count per key is always kept).
func (c *Ctx) Violate(property, key, what string, replay any) {
	key = SanitizeKey(key)
	b, err := json.Marshal(replay)
	if err != nil {
		b, _ = json.Marshal(fmt.Sprintf("unserialisable replay: %v", err))
	}
	c.mu.Lock()
	c.vkeys[key]++
	c.res.Counters["violations_raw"]++
	if c.vkeys[key] <= 3 {
		c.res.Violations = append(c.res.Violations, Violation{Property: property, Key: key, What: what, Replay: b})
	}
	c.mu.Unlock()
}

func (c *Ctx) finish() *Result {
	c.mu.Lock()
	defer c.mu.Unlock()
	c.res.Distinct = setToSlice(c.distinct)
	c.res.StateSet = setToSlice(c.states)
	c.res.States = int64(len(c.states))
	return &c.res
}

func setToSlice(m map[uint64]struct{}) []uint64 {
	out := make([]uint64, 0, len(m))
	for k := range m {
		out = append(out, k)
	}
	sort.Slice(out, func(i, j int) bool { return out[i] < out[j] })
	return out
}

// Hash64 is the canonical-string hash used for state and case sets.
func Hash64(s string) uint64 {
	h := fnv.New64a()
	h.Write([]byte(s))
	return h.Sum64()
}

// ShortHash gives a short stable hex id for file names.
func ShortHash(b []byte) string {
	s := sha256.Sum256(b)
	return hex.EncodeToString(s[:8])
}

// Check is one registered property check.
type Check struct {
	ID    string
	Level string // evidence level: exploration | fault_enumeration | model_checking
	Rule  string // how cases are enumerated and what makes one distinct / non-trivial
	// Run explores this shard's part of the space.
	Run func(c *Ctx)
	// Replay re-runs exactly one recorded case and returns the violations it
	// shows (empty = the case passes).
	Replay func(c *Ctx, data json.RawMessage) []Violation
	// Shards is the number of worker processes (0 = number of CPUs).
	Shards func(tier string) int
	// Assumptions are copied into the evidence file.
	Assumptions []string
	// RequiredFloors are vacuity guards: if a run does not reach one of them it
	// is reported as not exhaustive (never as a violation).
	RequiredFloors []string
	// WorkerTimeoutS is the watchdog for one worker (0 = default by tier).
	WorkerTimeoutS func(tier string) int
	// CrashViolation, when set, turns the death of a worker (fatal error,
	// stack overflow, watchdog) into a violation built from the last Mark.
	CrashViolation func(mark string, stderr string) *Violation
	// Binary names a special build (overlay variant) the check must run in;
	// empty = the plain harness binary.
	Binary string
}

var registry = map[string]*Check{}

// Register adds a check (called from init functions of check packages).
func Register(c *Check) { registry[c.ID] = c }

// Lookup finds a check.
func Lookup(id string) *Check { return registry[id] }

// IDs lists registered checks.
func IDs() []string {
	var ids []string
	for k := range registry {
		ids = append(ids, k)
	}
	sort.Strings(ids)
	return ids
}

// TakeViolations returns and clears the violations recorded so far (used by
// Replay functions that re-run a check's oracle on a fresh Ctx).
func (c *Ctx) TakeViolations() []Violation {
	c.mu.Lock()
	defer c.mu.Unlock()
	v := c.res.Violations
	c.res.Violations = nil
	c.vkeys = map[string]int{}
	return v
}

// FilterKey keeps the violations with the given key ("" keeps all).
func FilterKey(vs []Violation, key string) []Violation {
	if key == "" {
		return vs
	}
	var out []Violation
	for _, v := range vs {
		if v.Key == key {
			out = append(out, v)
		}
	}
	return out
}

// SanitizeKey makes a finding key a single token (the findings file is
// whitespace separated).
func SanitizeKey(k string) string { return strings.Join(strings.Fields(k), "_") }
