package core

import (
	"bufio"
	"bytes"
	"encoding/json"
	"fmt"
	"os"
	"os/exec"
	"path/filepath"
	"runtime"
	"sort"
	"strconv"
	"strings"
	"sync"
	"time"
)

// VerifDir is the root of the verification tree (evidence, replays, findings).
func VerifDir() string {
	if d := os.Getenv("VERIF_DIR"); d != "" {
		return d
	}
	return "/verif"
}

type finding struct {
	Property string
	Key      string
	What     string
}

// loadFindings parses KNOWN_FINDINGS.txt. Lines:
//
//	finding: property=C09 key=<key> <what fails>
//	fixed: property=C20 <commit> <what failed>      (suppresses nothing)
func loadFindings() []finding {
	f, err := os.Open(filepath.Join(VerifDir(), "KNOWN_FINDINGS.txt"))
	if err != nil {
		return nil
	}
	defer f.Close()
	var out []finding
	sc := bufio.NewScanner(f)
	sc.Buffer(make([]byte, 1<<20), 1<<20)
	for sc.Scan() {
		line := strings.TrimSpace(sc.Text())
		if !strings.HasPrefix(line, "finding:") {
			continue
		}
		rest := strings.TrimSpace(strings.TrimPrefix(line, "finding:"))
		parts := strings.SplitN(rest, " ", 3)
		if len(parts) < 2 || !strings.HasPrefix(parts[0], "property=") || !strings.HasPrefix(parts[1], "key=") {
			continue
		}
		fd := finding{Property: strings.TrimPrefix(parts[0], "property="), Key: strings.TrimPrefix(parts[1], "key=")}
		if len(parts) == 3 {
			fd.What = parts[2]
		}
		out = append(out, fd)
	}
	return out
}

// WorkerMain is the entry point of a worker process.
func WorkerMain(id, tier string, seed int64, shard, shards int, only, outPath, markPath string) int {
	chk := Lookup(id)
	if chk == nil {
		fmt.Fprintf(os.Stderr, "unknown check %s\n", id)
		return 2
	}
	ctx := newCtx(tier, seed, shard, shards)
	ctx.Only = only
	if markPath != "" {
		if f, err := os.OpenFile(markPath, os.O_CREATE|os.O_RDWR, 0o644); err == nil {
			ctx.markFile = f
		}
	}
	chk.Run(ctx)
	res := ctx.finish()
	b, err := json.Marshal(res)
	if err != nil {
		fmt.Fprintf(os.Stderr, "marshal result: %v\n", err)
		return 2
	}
	if err := os.WriteFile(outPath, b, 0o644); err != nil {
		fmt.Fprintf(os.Stderr, "write result: %v\n", err)
		return 2
	}
	return 0
}

// ReplayMain re-runs one recorded case: exit 1 with a VIOLATION line if it
// still violates, 0 otherwise.
func ReplayMain(path string, quiet bool) int {
	b, err := os.ReadFile(path)
	if err != nil {
		fmt.Fprintln(os.Stderr, err)
		return 2
	}
	var v Violation
	if err := json.Unmarshal(b, &v); err != nil {
		fmt.Fprintln(os.Stderr, err)
		return 2
	}
	if strings.HasPrefix(v.Key, "race|") {
		rc := replayRace(v)
		if rc == 1 {
			fmt.Printf("VIOLATION property=%s replay=%s\n", v.Property, path)
		}
		return rc
	}
	chk := Lookup(v.Property)
	if chk == nil || chk.Replay == nil {
		fmt.Fprintf(os.Stderr, "no replay for %s\n", v.Property)
		return 2
	}
	ctx := newCtx("replay", 0, 0, 1)
	vs := chk.Replay(ctx, v.Replay)
	// observations for determinism comparison
	type obs struct {
		Keys []string `json:"keys"`
	}
	var o obs
	for _, x := range vs {
		o.Keys = append(o.Keys, x.Key)
	}
	sort.Strings(o.Keys)
	ob, _ := json.Marshal(o)
	fmt.Printf("REPLAY-OBSERVATION %s\n", ob)
	if len(vs) > 0 {
		if !quiet {
			for _, x := range vs {
				fmt.Printf("replayed violation: property=%s key=%s %s\n", x.Property, x.Key, x.What)
			}
		}
		fmt.Printf("VIOLATION property=%s replay=%s\n", v.Property, path)
		return 1
	}
	fmt.Println("replay: case passes")
	return 0
}

// CheckMain runs one check end to end (parent process).
func CheckMain(id, tier string, seed int64, only string, shardsOverride int) int {
	chk := Lookup(id)
	if chk == nil {
		fmt.Fprintf(os.Stderr, "unknown check %s (have %v)\n", id, IDs())
		return 2
	}
	start := time.Now()
	shards := runtime.NumCPU()
	if chk.Shards != nil {
		if n := chk.Shards(tier); n > 0 {
			shards = n
		}
	}
	if shardsOverride > 0 {
		shards = shardsOverride
	}
	timeout := 900
	if tier == "thorough" {
		timeout = 3 * 3600
	}
	if chk.WorkerTimeoutS != nil {
		if t := chk.WorkerTimeoutS(tier); t > 0 {
			timeout = t
		}
	}
	self, _ := os.Executable()
	tmp, err := os.MkdirTemp("/var/tmp", "verif-"+id+"-")
	if err != nil {
		fmt.Fprintln(os.Stderr, err)
		return 2
	}
	defer os.RemoveAll(tmp)

	results := make([]*Result, shards)
	crashes := make([]string, shards)
	crashV := make([]*Violation, shards)
	var wg sync.WaitGroup
	for i := 0; i < shards; i++ {
		wg.Add(1)
		go func(i int) {
			defer wg.Done()
			out := filepath.Join(tmp, fmt.Sprintf("res-%d.json", i))
			mark := filepath.Join(tmp, fmt.Sprintf("mark-%d", i))
			args := []string{"worker", id, "--tier", tier, "--seed", strconv.FormatInt(seed, 10),
				"--shard", fmt.Sprintf("%d/%d", i, shards), "--out", out, "--mark", mark}
			if only != "" {
				args = append(args, "--only", only)
			}
			cmd := exec.Command(self, args...)
			cmd.Env = append(os.Environ(), "GOMAXPROCS=2", "GOTRACEBACK=single")
			var stderr bytes.Buffer
			cmd.Stderr = &tailWriter{buf: &stderr, max: 1 << 16}
			cmd.Stdout = os.Stderr
			if err := cmd.Start(); err != nil {
				crashes[i] = "start: " + err.Error()
				return
			}
			done := make(chan error, 1)
			go func() { done <- cmd.Wait() }()
			var werr error
			select {
			case werr = <-done:
			case <-time.After(time.Duration(timeout) * time.Second):
				cmd.Process.Kill()
				<-done
				werr = fmt.Errorf("worker watchdog (%ds) expired", timeout)
			}
			if b, err := os.ReadFile(out); err == nil && werr == nil {
				var r Result
				if err := json.Unmarshal(b, &r); err == nil {
					results[i] = &r
					return
				}
			}
			m, _ := os.ReadFile(mark)
			m = bytes.TrimRight(m, "\x00")
			crashes[i] = fmt.Sprintf("worker %d died: %v; last case: %s; stderr tail: %s", i, werr, string(m), tail(stderr.String(), 1500))
			if chk.CrashViolation != nil && len(m) > 0 {
				if v := chk.CrashViolation(string(m), fmt.Sprintf("%v\n%s", werr, tail(stderr.String(), 4000))); v != nil {
					crashV[i] = v
				}
			}
		}(i)
	}
	wg.Wait()

	merged := Result{Outcomes: map[string]int64{}, Counters: map[string]int64{}, Extra: map[string]any{}, Floors: map[string]bool{}, Bounds: map[string]string{}, Exhaustive: true}
	distinct := map[uint64]struct{}{}
	states := map[uint64]struct{}{}
	for i, r := range results {
		if r == nil {
			merged.Exhaustive = false
			merged.Notes = append(merged.Notes, "WORKER-CRASH: "+crashes[i])
			fmt.Fprintf(os.Stderr, "HARNESS-WORKER-CRASH %s\n", crashes[i])
			if crashV[i] != nil {
				merged.Violations = append(merged.Violations, *crashV[i])
			}
			continue
		}
		merged.Evaluations += r.Evaluations
		merged.Transitions += r.Transitions
		for k, v := range r.Outcomes {
			merged.Outcomes[k] += v
		}
		for k, v := range r.Counters {
			merged.Counters[k] += v
		}
		for k, v := range r.Extra {
			if _, ok := merged.Extra[k]; !ok {
				merged.Extra[k] = v
			}
		}
		for k, v := range r.Floors {
			if v {
				merged.Floors[k] = true
			}
		}
		for k, v := range r.Bounds {
			merged.Bounds[k] = v
		}
		for _, h := range r.Distinct {
			distinct[h] = struct{}{}
		}
		for _, h := range r.StateSet {
			states[h] = struct{}{}
		}
		if len(merged.Samples) < 16 {
			for _, s := range r.Samples {
				if len(merged.Samples) < 16 {
					merged.Samples = append(merged.Samples, s)
				}
			}
		}
		merged.Violations = append(merged.Violations, r.Violations...)
		if !r.Exhaustive {
			merged.Exhaustive = false
		}
		for _, n := range r.Notes {
			if !contains(merged.Notes, n) {
				merged.Notes = append(merged.Notes, n)
			}
		}
		if r.MaxDepth > merged.MaxDepth {
			merged.MaxDepth = r.MaxDepth
		}
	}
	merged.States = int64(len(states))
	for _, fl := range chk.RequiredFloors {
		if !merged.Floors[fl] && only == "" {
			merged.Exhaustive = false
			merged.Notes = append(merged.Notes, "NOT-EXHAUSTIVE: diversity floor not reached: "+fl)
			fmt.Fprintf(os.Stderr, "HARNESS-FLOOR-MISSED %s %s\n", id, fl)
		}
	}

	// classify violations
	known := loadFindings()
	isKnown := func(v Violation) *finding {
		for i := range known {
			if known[i].Property == v.Property && known[i].Key == v.Key {
				return &known[i]
			}
		}
		return nil
	}
	if only == "" {
		merged.Violations = append(merged.Violations, raceViolations(id)...)
	}
	sort.SliceStable(merged.Violations, func(i, j int) bool { return merged.Violations[i].Key < merged.Violations[j].Key })
	printedKnown := map[string]bool{}
	newByKey := map[string]Violation{}
	var newKeys []string
	knownCount := 0
	for _, v := range merged.Violations {
		if f := isKnown(v); f != nil {
			knownCount++
			if !printedKnown[v.Key] {
				printedKnown[v.Key] = true
				what := f.What
				if what == "" {
					what = v.What
				}
				fmt.Printf("KNOWN-FINDING: property=%s %s [key=%s]\n", v.Property, what, v.Key)
			}
			continue
		}
		if _, ok := newByKey[v.Key]; !ok {
			newByKey[v.Key] = v
			newKeys = append(newKeys, v.Key)
		}
	}
	exit := 0
	confirmed := 0
	repDir := filepath.Join(VerifDir(), "replays", id)
	const maxConfirm = 12
	for ki, k := range newKeys {
		v := newByKey[k]
		if ki >= maxConfirm && confirmed > 0 {
			// enough confirmed violations to fail the run; the remaining keys are listed, not replayed
			fmt.Printf("violation (not replayed, %d keys beyond the first %d): property=%s key=%s %s\n", len(newKeys)-maxConfirm, maxConfirm, v.Property, v.Key, firstN(v.What, 200))
			continue
		}
		os.MkdirAll(repDir, 0o755)
		vb, _ := json.MarshalIndent(v, "", " ")
		path := filepath.Join(repDir, ShortHash([]byte(v.Key))+".json")
		os.WriteFile(path, vb, 0o644)
		if chk.Replay == nil || strings.HasPrefix(v.Key, "race|") {
			// (a race detector report is a fact about an execution that happened; it is not re-confirmed)
			fmt.Printf("violation: property=%s key=%s %s\n", v.Property, v.Key, v.What)
			fmt.Printf("VIOLATION property=%s replay=%s\n", v.Property, path)
			exit = 1
			confirmed++
			continue
		}
		// deterministic confirmation: 5 replays must all fail with identical observations
		fails, same, first := 0, true, ""
		for r := 0; r < 5; r++ {
			cmd := exec.Command(self, "replay", path, "--quiet")
			cmd.Env = append(os.Environ(), "GOTRACEBACK=single")
			var out bytes.Buffer
			cmd.Stdout = &out
			cmd.Stderr = &out
			done := make(chan error, 1)
			if err := cmd.Start(); err != nil {
				same = false
				break
			}
			go func() { done <- cmd.Wait() }()
			select {
			case <-done:
			case <-time.After(120 * time.Second):
				cmd.Process.Kill()
				<-done
			}
			obs := ""
			for _, l := range strings.Split(out.String(), "\n") {
				if strings.HasPrefix(l, "REPLAY-OBSERVATION ") {
					obs = l
				}
			}
			code := cmd.ProcessState.ExitCode()
			if code == 1 {
				fails++
			} else if code != 0 {
				// worker crashed while replaying: for crash-class checks that is the violation itself
				fails++
				obs = "crash"
			}
			if r == 0 {
				first = obs
			} else if obs != first {
				same = false
			}
		}
		if fails == 5 && same {
			fmt.Printf("violation: property=%s key=%s %s\n", v.Property, v.Key, v.What)
			fmt.Printf("VIOLATION property=%s replay=%s\n", v.Property, path)
			exit = 1
			confirmed++
		} else {
			merged.Exhaustive = false
			msg := fmt.Sprintf("HARNESS-NONDETERMINISM property=%s key=%s replay failed %d/5 identical=%v (%s)", v.Property, v.Key, fails, same, path)
			merged.Notes = append(merged.Notes, msg)
			fmt.Fprintln(os.Stderr, msg)
		}
	}

	// evidence
	wall := time.Since(start).Seconds()
	ev := map[string]any{
		"property_id": id,
		"tier":        tierName(tier),
		"seed":        seed,
		"level":       chk.Level,
		"wall_s":      wall,
		"violations":  confirmed,
		"assumptions": append([]string{}, chk.Assumptions...),
	}
	cov := map[string]any{
		"evaluations":         merged.Evaluations,
		"distinct_nontrivial": len(distinct),
		"rule":                chk.Rule,
		"samples":             merged.Samples,
		"exhaustive":          merged.Exhaustive,
		"distinct_outcomes":   len(merged.Outcomes),
		"outcomes":            merged.Outcomes,
		"counters":            merged.Counters,
		"notes":               merged.Notes,
		"bounds":              merged.Bounds,
		"floors_reached":      keysOf(merged.Floors),
		"known_finding_hits":  knownCount,
		"known_finding_keys":  keysOfB(printedKnown),
		"shards":              shards,
	}
	if chk.Level == "model_checking" {
		cov["states"] = merged.States
		cov["transitions"] = merged.Transitions
		cov["traces_validated_against_impl"] = merged.Transitions
		cov["max_depth"] = merged.MaxDepth
	} else if merged.States > 0 {
		cov["states"] = merged.States
		cov["transitions"] = merged.Transitions
	}
	for k, v := range merged.Extra {
		cov[k] = v
	}
	if p := os.Getenv("VERIF_RACEPASS"); p != "" {
		if b, err := os.ReadFile(p); err == nil {
			var rp map[string]any
			if json.Unmarshal(b, &rp) == nil {
				rp["note"] = "separate free-running -race build (concurrent storage-backend use, concurrent operations on one release over one shared driver, concurrent renders); samples schedules: silence is supporting evidence only, a report is a violation (key race|<body>)"
				delete(rp, "output")
				cov["race_pass"] = rp
			}
		}
	}
	if len(merged.Samples) == 0 {
		cov["samples"] = []any{"(no sample recorded)"}
	}
	ev["coverage"] = cov
	if only == "" {
		os.MkdirAll(filepath.Join(VerifDir(), "evidence"), 0o755)
		eb, _ := json.MarshalIndent(ev, "", " ")
		os.WriteFile(filepath.Join(VerifDir(), "evidence", id+".json"), eb, 0o644)
	}
	fmt.Printf("check %s tier=%s: evaluations=%d states=%d transitions=%d distinct=%d outcomes=%d exhaustive=%v known=%d new=%d wall=%.1fs\n",
		id, tier, merged.Evaluations, merged.States, merged.Transitions, len(distinct), len(merged.Outcomes), merged.Exhaustive, knownCount, confirmed, wall)
	for _, n := range merged.Notes {
		fmt.Fprintf(os.Stderr, "note: %s\n", n)
	}
	return exit
}

func tierName(t string) string {
	if t == "thorough" {
		return "thorough"
	}
	return "quick"
}

func keysOf(m map[string]bool) []string {
	var out []string
	for k, v := range m {
		if v {
			out = append(out, k)
		}
	}
	sort.Strings(out)
	return out
}
func keysOfB(m map[string]bool) []string { return keysOf(m) }

func contains(xs []string, s string) bool {
	for _, x := range xs {
		if x == s {
			return true
		}
	}
	return false
}

func tail(s string, n int) string {
	if len(s) <= n {
		return s
	}
	return s[len(s)-n:]
}

type tailWriter struct {
	buf *bytes.Buffer
	max int
	mu  sync.Mutex
}

func (t *tailWriter) Write(p []byte) (int, error) {
	t.mu.Lock()
	defer t.mu.Unlock()
	t.buf.Write(p)
	if t.buf.Len() > 2*t.max {
		b := t.buf.Bytes()
		nb := append([]byte{}, b[len(b)-t.max:]...)
		t.buf.Reset()
		t.buf.Write(nb)
	}
	return len(p), nil
}

func firstN(s string, n int) string {
	if len(s) <= n {
		return s
	}
	return s[:n] + "…"
}
