package core

import (
	"encoding/json"
	"fmt"
	"os"
	"os/exec"
	"path/filepath"
	"strings"
)

// The race pass (harness/cmd/racepass, built with -race, free-running) is a
// separate pass: its silence proves nothing, but every report of Go's race
// detector is a real data race, so reports become violations. They are keyed
// by the body that was running ("race|storage-memory", "race|render", ...),
// which is stable across runs, not by the racing function.

type raceInfo struct {
	Built   bool   `json:"built"`
	Mode    string `json:"mode"`
	Iter    int    `json:"iterations"`
	Exit    int    `json:"exit_code"`
	Reports int    `json:"race_reports"`
	Output  string `json:"output"`
}

type raceReplay struct {
	Part   string `json:"part"`
	Mode   string `json:"mode"`
	Body   string `json:"body"`
	Report string `json:"report"`
}

// parseRaceOutput returns body -> first report text.
func parseRaceOutput(out string) (map[string]string, map[string]int) {
	first, count := map[string]string{}, map[string]int{}
	body := "none"
	lines := strings.Split(out, "\n")
	for i := 0; i < len(lines); i++ {
		l := lines[i]
		if strings.HasPrefix(l, "RACEPASS-BODY ") {
			body = strings.TrimSpace(strings.TrimPrefix(l, "RACEPASS-BODY "))
			continue
		}
		if strings.HasPrefix(l, "RENDER-MISMATCH") {
			count["render-mismatch"]++
			if first["render-mismatch"] == "" {
				first["render-mismatch"] = l
			}
		}
		if strings.HasPrefix(l, "WARNING: DATA RACE") {
			j := i
			for j < len(lines) && !strings.HasPrefix(lines[j], "==================") {
				j++
			}
			count[body]++
			if first[body] == "" {
				first[body] = strings.Join(lines[i:j], "\n")
			}
			i = j
		}
	}
	return first, count
}

func raceSummary(report string) string {
	var fr []string
	ls := strings.Split(report, "\n")
	for i, l := range ls {
		if strings.HasPrefix(l, "Write at") || strings.HasPrefix(l, "Read at") || strings.HasPrefix(l, "Previous ") {
			acc := strings.Fields(l)[0]
			if acc == "Previous" {
				acc = "previous " + strings.Fields(l)[1]
			}
			for k := i + 1; k+1 < len(ls) && strings.TrimSpace(ls[k]) != ""; k += 2 {
				if strings.Contains(ls[k], "helm.sh/helm/v4") {
					loc := strings.Fields(strings.TrimSpace(ls[k+1]))
					where := ""
					if len(loc) > 0 {
						where = " (" + filepath.Base(filepath.Dir(loc[0])) + "/" + filepath.Base(loc[0]) + ")"
					}
					fr = append(fr, strings.ToLower(acc)+" in "+strings.TrimSpace(strings.TrimSuffix(strings.TrimSpace(ls[k]), "()"))+where)
					break
				}
			}
		}
	}
	return strings.Join(fr, " vs ")
}

// raceViolations turns the race pass output (if one ran) into violations.
func raceViolations(id string) []Violation {
	p := os.Getenv("VERIF_RACEPASS")
	if p == "" {
		return nil
	}
	b, err := os.ReadFile(p)
	if err != nil {
		return nil
	}
	var ri raceInfo
	if json.Unmarshal(b, &ri) != nil || !ri.Built || ri.Output == "" {
		return nil
	}
	ob, err := os.ReadFile(ri.Output)
	if err != nil {
		return nil
	}
	first, count := parseRaceOutput(string(ob))
	var out []Violation
	for body, rep := range first {
		key := "race|" + body
		rb, _ := json.Marshal(raceReplay{Part: "race", Mode: ri.Mode, Body: body, Report: rep})
		what := fmt.Sprintf("Go's race detector reported %d data race(s) while the free-running body %q ran: %s", count[body], body, raceSummary(rep))
		if body == "render-mismatch" {
			what = "concurrent renders of one chart produced different outputs: " + rep
		}
		out = append(out, Violation{Property: id, Key: key, What: what, Replay: rb})
	}
	return out
}

// replayRace re-runs the race pass and reports whether the same body races again.
func replayRace(v Violation) int {
	var rr raceReplay
	json.Unmarshal(v.Replay, &rr)
	bin := filepath.Join(VerifDir(), "bin", "racepass")
	cmd := exec.Command(bin, rr.Mode, "40")
	cmd.Env = append(os.Environ(), "GORACE=exitcode=66 halt_on_error=0")
	out, _ := cmd.CombinedOutput()
	first, count := parseRaceOutput(string(out))
	if rep, ok := first[rr.Body]; ok {
		fmt.Printf("replayed violation: property=%s key=%s %d report(s) again: %s\n", v.Property, v.Key, count[rr.Body], raceSummary(rep))
		return 1
	}
	fmt.Println("replay: the race pass reported nothing for this body in 40 iterations (a free-running pass samples schedules; the recorded report stands on its own)")
	return 0
}
