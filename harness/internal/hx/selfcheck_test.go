package hx

import "testing"

func TestSimSelfCheck(t *testing.T) {
	n, err := SimSelfCheck()
	t.Logf("%d sequences compared", n)
	if err != nil {
		t.Fatal(err)
	}
}
