package hx

import (
	"encoding/json"
	"fmt"
	"sort"
	"strings"

	chart "helm.sh/helm/v4/pkg/chart/v2"
)

// ResSpec is one manifest resource of a generated chart.
type ResSpec struct {
	Kind string `json:"kind"` // ConfigMap | Service | Secret | ServiceAccount | Widget | Job | Pod
	Name string `json:"name"`
	// Variant selects the content: 1, 2, or 3 (= 2 with the optional field removed).
	Variant int `json:"variant"`
	// Policy is the helm.sh/resource-policy annotation ("" = absent).
	Policy string `json:"policy,omitempty"`
}

// HookSpec is one hook resource.
type HookSpec struct {
	Name   string   `json:"name"`
	Kind   string   `json:"kind"` // ConfigMap | Job
	Events []string `json:"events"`
	Weight int      `json:"weight"`
	// WeightRaw, when non-empty, is rendered verbatim (inside the quotes) as the
	// helm.sh/hook-weight annotation instead of the decimal Weight.
	WeightRaw string   `json:"weight_raw,omitempty"`
	Policies  []string `json:"policies,omitempty"` // nil = annotation absent
}

// ChartSpec describes a generated chart completely; it is what replays store.
type ChartSpec struct {
	Name      string            `json:"name"`
	Version   string            `json:"version"`
	Resources []ResSpec         `json:"resources,omitempty"`
	Hooks     []HookSpec        `json:"hooks,omitempty"`
	Values    map[string]any    `json:"values,omitempty"`
	Schema    string            `json:"schema,omitempty"`
	Notes     string            `json:"notes,omitempty"`
	CRDs      bool              `json:"crds,omitempty"`
	Probe     bool              `json:"probe,omitempty"` // ConfigMap "probe" rendering .Values as JSON
	Extra     map[string]string `json:"extra,omitempty"` // extra raw template files
	Subcharts []*ChartSpec      `json:"subcharts,omitempty"`
	Deps      []DepSpec         `json:"deps,omitempty"`
}

// DepSpec is a Chart.yaml dependency entry.
type DepSpec struct {
	Name      string   `json:"name"`
	Alias     string   `json:"alias,omitempty"`
	Condition string   `json:"condition,omitempty"`
	Tags      []string `json:"tags,omitempty"`
}

// ID is a short human-readable identity of the chart content.
func (c *ChartSpec) ID() string {
	var parts []string
	for _, r := range c.Resources {
		s := fmt.Sprintf("%s/%s=v%d", r.Kind, r.Name, r.Variant)
		if r.Policy != "" {
			s += "(" + r.Policy + ")"
		}
		parts = append(parts, s)
	}
	for _, h := range c.Hooks {
		w := fmt.Sprint(h.Weight)
		if h.WeightRaw != "" {
			w = fmt.Sprintf("%q", h.WeightRaw)
		}
		parts = append(parts, fmt.Sprintf("hook:%s/%s@%s w%s %v", h.Kind, h.Name, strings.Join(h.Events, "+"), w, h.Policies))
	}
	if c.Probe {
		parts = append(parts, "probe")
	}
	if len(c.Values) > 0 {
		b, _ := json.Marshal(c.Values)
		parts = append(parts, "defaults="+string(b))
	}
	if c.Schema != "" {
		parts = append(parts, "schema")
	}
	if c.CRDs {
		parts = append(parts, "crds")
	}
	for _, s := range c.Subcharts {
		parts = append(parts, "sub("+s.ID()+")")
	}
	return c.Name + "-" + c.Version + "{" + strings.Join(parts, " ") + "}"
}

// ResourceYAML renders the manifest document of a resource spec.
func ResourceYAML(r ResSpec) string {
	anno := ""
	if r.Policy != "" {
		anno = fmt.Sprintf("  annotations:\n    helm.sh/resource-policy: %s\n", r.Policy)
	}
	switch r.Kind {
	case "ConfigMap":
		d := fmt.Sprintf("  k: v%d\n", min(r.Variant, 2))
		if r.Variant != 3 {
			d += "  opt: o\n"
		}
		return fmt.Sprintf("apiVersion: v1\nkind: ConfigMap\nmetadata:\n  name: %s\n%sdata:\n%s", r.Name, anno, d)
	case "Secret":
		d := fmt.Sprintf("  k: djE%d\n", min(r.Variant, 2)) // arbitrary base64
		if r.Variant != 3 {
			d += "  opt: bw==\n"
		}
		return fmt.Sprintf("apiVersion: v1\nkind: Secret\nmetadata:\n  name: %s\n%stype: Opaque\ndata:\n%s", r.Name, anno, d)
	case "Service":
		sel := "    app: x\n"
		if r.Variant != 3 {
			sel += "    opt: o\n"
		}
		return fmt.Sprintf("apiVersion: v1\nkind: Service\nmetadata:\n  name: %s\n%sspec:\n  ports:\n  - port: %d\n    name: p\n  selector:\n%s", r.Name, anno, 80+min(r.Variant, 2), sel)
	case "ServiceAccount":
		return fmt.Sprintf("apiVersion: v1\nkind: ServiceAccount\nmetadata:\n  name: %s\n%sautomountServiceAccountToken: %v\n", r.Name, anno, r.Variant == 1)
	case "Widget", "Gadget":
		d := fmt.Sprintf("  size: %d\n", min(r.Variant, 2))
		if r.Variant != 3 {
			d += "  opt: o\n"
		}
		return fmt.Sprintf("apiVersion: example.verif/v1\nkind: %s\nmetadata:\n  name: %s\n%sspec:\n%s", r.Kind, r.Name, anno, d)
	case "Job":
		return fmt.Sprintf("apiVersion: batch/v1\nkind: Job\nmetadata:\n  name: %s\n%sspec:\n  template:\n    spec:\n      restartPolicy: Never\n      containers:\n      - name: c\n        image: i:v%d\n", r.Name, anno, r.Variant)
	case "Pod":
		return fmt.Sprintf("apiVersion: v1\nkind: Pod\nmetadata:\n  name: %s\n%sspec:\n  containers:\n  - name: c\n    image: i:v%d\n", r.Name, anno, r.Variant)
	case "HPA": // one object served under autoscaling/v1 and autoscaling/v2: variant 1 uses v1, the others v2
		av := []string{"autoscaling/v1", "autoscaling/v2", "autoscaling/v2"}[min(r.Variant, 3)-1]
		d := fmt.Sprintf("  maxReplicas: %d\n", 2+min(r.Variant, 2))
		if r.Variant != 3 {
			d += "  minReplicas: 2\n"
		}
		return fmt.Sprintf("apiVersion: %s\nkind: HorizontalPodAutoscaler\nmetadata:\n  name: %s\n%sspec:\n%s  scaleTargetRef:\n    apiVersion: apps/v1\n    kind: Deployment\n    name: d\n", av, r.Name, anno, d)
	case "CRD": // a CustomResourceDefinition rendered as an ordinary template (cluster-scoped, typed: strategic three-way patch)
		tier := []string{"gold", "silver"}[min(r.Variant, 2)-1]
		return fmt.Sprintf("apiVersion: apiextensions.k8s.io/v1\nkind: CustomResourceDefinition\nmetadata:\n  name: %s\n  labels:\n    tier: %s\n%sspec:\n  group: example.verif\n  names:\n    kind: Crd%s\n    plural: %s\n    singular: thing\n  scope: Namespaced\n", r.Name, tier, anno, r.Name, r.Name)
	case "ClusterRole": // cluster-scoped (store path /apis/rbac.authorization.k8s.io/v1/clusterroles/<name>)
		verbs := []string{`["get"]`, `["get", "list"]`}[min(r.Variant, 2)-1]
		return fmt.Sprintf("apiVersion: rbac.authorization.k8s.io/v1\nkind: ClusterRole\nmetadata:\n  name: %s\n%srules:\n- apiGroups: [\"\"]\n  resources: [\"pods\"]\n  verbs: %s\n", r.Name, anno, verbs)
	}
	panic("kind " + r.Kind)
}

// HookYAML renders a hook document.
func HookYAML(h HookSpec) string {
	weight := fmt.Sprint(h.Weight)
	if h.WeightRaw != "" {
		weight = h.WeightRaw
	}
	anno := fmt.Sprintf("    helm.sh/hook: %s\n    helm.sh/hook-weight: \"%s\"\n", strings.Join(h.Events, ","), weight)
	if h.Policies != nil {
		anno += fmt.Sprintf("    helm.sh/hook-delete-policy: %s\n", strings.Join(h.Policies, ","))
	}
	switch h.Kind {
	case "Job":
		return fmt.Sprintf("apiVersion: batch/v1\nkind: Job\nmetadata:\n  name: %s\n  annotations:\n%sspec:\n  template:\n    spec:\n      restartPolicy: Never\n      containers:\n      - name: c\n        image: hook\n", h.Name, anno)
	default:
		return fmt.Sprintf("apiVersion: v1\nkind: ConfigMap\nmetadata:\n  name: %s\n  annotations:\n%sdata:\n  hook: \"yes\"\n", h.Name, anno)
	}
}

// Build creates a fresh *chart.Chart (actions mutate the chart they get).
func (c *ChartSpec) Build() *chart.Chart {
	ch := &chart.Chart{Metadata: &chart.Metadata{Name: c.Name, Version: c.Version, APIVersion: "v2"}}
	if ch.Metadata.Version == "" {
		ch.Metadata.Version = "0.1.0"
	}
	for _, r := range c.Resources {
		ch.Templates = append(ch.Templates, &chart.File{Name: fmt.Sprintf("templates/%s-%s.yaml", strings.ToLower(r.Kind), r.Name), Data: []byte(ResourceYAML(r))})
	}
	for _, h := range c.Hooks {
		ch.Templates = append(ch.Templates, &chart.File{Name: fmt.Sprintf("templates/hook-%s.yaml", h.Name), Data: []byte(HookYAML(h))})
	}
	if c.Probe {
		ch.Templates = append(ch.Templates, &chart.File{Name: "templates/probe.yaml",
			Data: []byte("apiVersion: v1\nkind: ConfigMap\nmetadata:\n  name: probe-" + c.Name + "\ndata:\n  values: {{ .Values | toJson | quote }}\n")})
	}
	if c.Notes != "" {
		ch.Templates = append(ch.Templates, &chart.File{Name: "templates/NOTES.txt", Data: []byte(c.Notes)})
	}
	var names []string
	for n := range c.Extra {
		names = append(names, n)
	}
	sort.Strings(names)
	for _, n := range names {
		ch.Templates = append(ch.Templates, &chart.File{Name: n, Data: []byte(c.Extra[n])})
	}
	if c.CRDs {
		ch.Files = append(ch.Files, &chart.File{Name: "crds/crd.yaml", Data: []byte("apiVersion: apiextensions.k8s.io/v1\nkind: CustomResourceDefinition\nmetadata:\n  name: things.example.verif\nspec:\n  group: example.verif\n  names:\n    kind: Thing\n    plural: things\n  scope: Namespaced\n  versions:\n  - name: v1\n    served: true\n    storage: true\n    schema:\n      openAPIV3Schema:\n        type: object\n")})
	}
	if c.Values != nil {
		b, _ := json.Marshal(c.Values)
		var v map[string]any
		json.Unmarshal(b, &v)
		ch.Values = v
	} else {
		ch.Values = map[string]any{}
	}
	if c.Schema != "" {
		ch.Schema = []byte(c.Schema)
	}
	for _, d := range c.Deps {
		ch.Metadata.Dependencies = append(ch.Metadata.Dependencies, &chart.Dependency{Name: d.Name, Alias: d.Alias, Condition: d.Condition, Tags: d.Tags, Version: "*", Repository: "file://x"})
	}
	for _, s := range c.Subcharts {
		ch.AddDependency(s.Build())
	}
	return ch
}
