package hx

import (
	"bytes"
	"encoding/json"
	"fmt"
	"io"
	"reflect"
	"sort"
	"strings"

	yaml3 "gopkg.in/yaml.v3"

	"verif/harness/internal/sim"
)

// Doc is one manifest document parsed independently of Helm's splitter.
type Doc struct {
	APIVersion string
	Kind       string
	Name       string
	Namespace  string
	Obj        map[string]any
}

var resourceOf = map[string]string{
	"ConfigMap": "configmaps", "Secret": "secrets", "Service": "services", "ServiceAccount": "serviceaccounts", "Pod": "pods",
	"Job": "jobs", "Widget": "widgets", "Gadget": "gadgets", "Namespace": "namespaces", "Deployment": "deployments",
	"CustomResourceDefinition": "customresourcedefinitions",
	"ClusterRole": "clusterroles", "HorizontalPodAutoscaler": "horizontalpodautoscalers",
}

// ParseManifest decodes a YAML stream with yaml.v3's stream decoder (not
// Helm's regexp splitter) and returns the non-empty documents.
func ParseManifest(manifest string) ([]Doc, error) {
	dec := yaml3.NewDecoder(strings.NewReader(manifest))
	var out []Doc
	for {
		var v any
		err := dec.Decode(&v)
		if err == io.EOF {
			break
		}
		if err != nil {
			return out, err
		}
		if v == nil {
			continue
		}
		// normalise through JSON so that numbers/maps have the JSON shapes of the sim
		b, err := json.Marshal(jsonable(v))
		if err != nil {
			return out, err
		}
		var m map[string]any
		if err := json.Unmarshal(b, &m); err != nil {
			continue
		}
		d := Doc{Obj: m}
		d.APIVersion, _ = m["apiVersion"].(string)
		d.Kind, _ = m["kind"].(string)
		if md, ok := m["metadata"].(map[string]any); ok {
			d.Name, _ = md["name"].(string)
			d.Namespace, _ = md["namespace"].(string)
		}
		out = append(out, d)
	}
	return out, nil
}

func jsonable(v any) any {
	switch x := v.(type) {
	case map[string]any:
		o := map[string]any{}
		for k, e := range x {
			o[k] = jsonable(e)
		}
		return o
	case map[any]any:
		o := map[string]any{}
		for k, e := range x {
			o[fmt.Sprint(k)] = jsonable(e)
		}
		return o
	case []any:
		o := make([]any, len(x))
		for i, e := range x {
			o[i] = jsonable(e)
		}
		return o
	}
	return v
}

// Path is the sim store key of the document's object.
func (d Doc) Path() string {
	group, version := "", d.APIVersion
	if i := strings.Index(d.APIVersion, "/"); i >= 0 {
		group, version = d.APIVersion[:i], d.APIVersion[i+1:]
	}
	res := resourceOf[d.Kind]
	if res == "" {
		res = strings.ToLower(d.Kind) + "s"
	}
	ns := d.Namespace
	if ns == "" {
		ns = Namespace
	}
	if d.Kind == "Namespace" || d.Kind == "CustomResourceDefinition" {
		ns = ""
	}
	return sim.ObjPath(group, version, ns, res, d.Name)
}

// Subset reports whether every field of spec is present in live with the same
// value (maps recursively, lists element-wise with equal length).
func Subset(spec, live any) (bool, string) {
	switch s := spec.(type) {
	case map[string]any:
		l, ok := live.(map[string]any)
		if !ok {
			return false, fmt.Sprintf("expected a map, live has %T", live)
		}
		keys := make([]string, 0, len(s))
		for k := range s {
			keys = append(keys, k)
		}
		sort.Strings(keys)
		for _, k := range keys {
			lv, ok := l[k]
			if !ok {
				if s[k] == nil {
					continue
				}
				return false, "." + k + " missing"
			}
			if ok2, why := Subset(s[k], lv); !ok2 {
				return false, "." + k + why
			}
		}
		return true, ""
	case []any:
		l, ok := live.([]any)
		if !ok {
			return false, fmt.Sprintf(" expected a list, live has %T", live)
		}
		// every specified element must be matched by some live element (the
		// server may merge lists by key, so order and extra elements are free)
		for i := range s {
			found := false
			for j := range l {
				if ok2, _ := Subset(s[i], l[j]); ok2 {
					found = true
					break
				}
			}
			if !found {
				return false, fmt.Sprintf("[%d] = %v not found in live list %v", i, s[i], l)
			}
		}
		return true, ""
	}
	if !reflect.DeepEqual(spec, live) {
		return false, fmt.Sprintf(" = %v, manifest says %v", live, spec)
	}
	return true, ""
}

// ClusterMatches checks that every document of the manifest exists in the
// cluster with every specified field (plus Helm's ownership metadata); it
// returns human-readable discrepancies.
func (w *World) ClusterMatches(manifest, release string) []string {
	docs, err := ParseManifest(manifest)
	if err != nil {
		return []string{"manifest does not parse: " + err.Error()}
	}
	var out []string
	for _, d := range docs {
		b, ok := w.Sim.Get(d.Path())
		if !ok {
			out = append(out, fmt.Sprintf("%s/%s is in the manifest but not in the cluster", d.Kind, d.Name))
			continue
		}
		var live map[string]any
		json.Unmarshal(b, &live)
		if i := strings.Index(d.APIVersion, "/"); i > 0 && sim.MultiVersion(d.APIVersion[:i]) {
			live["apiVersion"] = d.APIVersion // one object served under every version of its group
		}
		if ok, why := Subset(d.Obj, live); !ok {
			out = append(out, fmt.Sprintf("%s/%s: live%s", d.Kind, d.Name, why))
		}
		if release != "" {
			if why := OwnershipProblem(live, release, Namespace); why != "" {
				out = append(out, fmt.Sprintf("%s/%s: %s", d.Kind, d.Name, why))
			}
		}
	}
	return out
}

// OwnershipProblem returns "" when the live object carries the managed-by
// label and both release annotations for (release, namespace).
func OwnershipProblem(live map[string]any, release, ns string) string {
	md, _ := live["metadata"].(map[string]any)
	lb, _ := md["labels"].(map[string]any)
	an, _ := md["annotations"].(map[string]any)
	if lb["app.kubernetes.io/managed-by"] != "Helm" {
		return "managed-by label missing"
	}
	if an["meta.helm.sh/release-name"] != release {
		return fmt.Sprintf("release-name annotation is %v", an["meta.helm.sh/release-name"])
	}
	if an["meta.helm.sh/release-namespace"] != ns {
		return fmt.Sprintf("release-namespace annotation is %v", an["meta.helm.sh/release-namespace"])
	}
	return ""
}

// NonRecordObjects returns path -> bytes of every object that is not a
// release record.
func (w *World) NonRecordObjects() map[string][]byte {
	out := map[string][]byte{}
	for _, p := range w.Sim.Paths() {
		if sim.IsRecordPath(p) {
			continue
		}
		b, _ := w.Sim.Get(p)
		out[p] = b
	}
	return out
}

// DiffObjects lists paths created, changed and deleted between two object maps.
func DiffObjects(pre, post map[string][]byte) (created, changed, deleted []string) {
	for p, b := range post {
		if pb, ok := pre[p]; !ok {
			created = append(created, p)
		} else if !bytes.Equal(pb, b) {
			changed = append(changed, p)
		}
	}
	for p := range pre {
		if _, ok := post[p]; !ok {
			deleted = append(deleted, p)
		}
	}
	sort.Strings(created)
	sort.Strings(changed)
	sort.Strings(deleted)
	return
}

// HasKeep reports whether a live object carries the keep resource policy.
func HasKeep(b []byte) bool {
	var m struct {
		Metadata struct {
			Annotations map[string]string `json:"annotations"`
		} `json:"metadata"`
	}
	json.Unmarshal(b, &m)
	return strings.EqualFold(strings.TrimSpace(m.Metadata.Annotations["helm.sh/resource-policy"]), "keep")
}
