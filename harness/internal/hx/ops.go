package hx

import (
	"bytes"
	"encoding/json"
	"fmt"
	"sort"
	"strings"
	"time"

	"github.com/mitchellh/copystructure"

	"helm.sh/helm/v4/pkg/action"
	chart "helm.sh/helm/v4/pkg/chart/v2"
	chartutil "helm.sh/helm/v4/pkg/chart/v2/util"
	rspb "helm.sh/helm/v4/pkg/release/v1"
	"helm.sh/helm/v4/pkg/storage/driver"
	helmtime "helm.sh/helm/v4/pkg/time"

	"verif/harness/internal/sim"
)

func init() {
	// pinned clock for everything that goes through action.Timestamper
	action.Timestamper = func() helmtime.Time { return helmtime.Unix(1700000000, 0).UTC() }
}

// Op is one Helm operation with its flags; JSON-serialisable for replays.
type Op struct {
	Kind    string         `json:"kind"` // install | upgrade | rollback | uninstall
	Release string         `json:"release,omitempty"`
	Chart   *ChartSpec     `json:"chart,omitempty"`
	Values  map[string]any `json:"values,omitempty"`
	// NilValues: with no Values, pass a nil map to the action (Go API callers may) instead of an empty one.
	NilValues bool `json:"nil_values,omitempty"`

	Atomic        bool `json:"atomic,omitempty"`
	Replace       bool `json:"replace,omitempty"`
	DisableHooks  bool `json:"no_hooks,omitempty"`
	CleanupOnFail bool `json:"cleanup_on_fail,omitempty"`
	KeepHistory   bool `json:"keep_history,omitempty"`
	MaxHistory    int  `json:"max_history,omitempty"`
	Version       int  `json:"version,omitempty"` // rollback target (0 = previous)
	Force         bool `json:"force,omitempty"`
	TakeOwnership bool `json:"take_ownership,omitempty"`
	WaitForJobs   bool `json:"wait_for_jobs,omitempty"`
	Recreate      bool `json:"recreate,omitempty"`

	DryRun       bool   `json:"dry_run,omitempty"`
	DryRunOption string `json:"dry_run_option,omitempty"`
	ClientOnly   bool   `json:"client_only,omitempty"`

	ResetValues          bool              `json:"reset_values,omitempty"`
	ReuseValues          bool              `json:"reuse_values,omitempty"`
	ResetThenReuseValues bool              `json:"reset_then_reuse_values,omitempty"`
	SkipSchemaValidation bool              `json:"skip_schema,omitempty"`
	CreateNamespace      bool              `json:"create_namespace,omitempty"`
	SkipCRDs             bool              `json:"skip_crds,omitempty"`
	IncludeCRDs          bool              `json:"include_crds,omitempty"`
	SubNotes             bool              `json:"sub_notes,omitempty"`
	HideSecret           bool              `json:"hide_secret,omitempty"`
	IsUpgrade            bool              `json:"is_upgrade,omitempty"`
	PostRender           bool              `json:"post_render,omitempty"`
	IgnoreNotFound       bool              `json:"ignore_not_found,omitempty"`
	Labels               map[string]string `json:"labels,omitempty"`
	Description          string            `json:"description,omitempty"`
}

// Short renders an operation compactly for keys and samples.
func (o Op) Short() string {
	var f []string
	add := func(b bool, s string) {
		if b {
			f = append(f, s)
		}
	}
	add(o.Atomic, "atomic")
	add(o.Replace, "replace")
	add(o.DisableHooks, "no-hooks")
	add(o.CleanupOnFail, "cleanup")
	add(o.KeepHistory, "keep-history")
	add(o.Force, "force")
	add(o.TakeOwnership, "take-ownership")
	add(o.DryRun, "DryRun")
	add(o.ClientOnly, "client-only")
	add(o.NilValues && o.Values == nil, "nil-values")
	add(o.ResetValues, "reset-values")
	add(o.ReuseValues, "reuse-values")
	add(o.ResetThenReuseValues, "reset-then-reuse")
	add(o.SkipSchemaValidation, "skip-schema")
	add(o.CreateNamespace, "create-ns")
	add(o.WaitForJobs, "wait-for-jobs")
	add(o.Recreate, "recreate")
	add(o.PostRender, "post-render")
	if o.DryRunOption != "" {
		f = append(f, "dry-run="+o.DryRunOption)
	}
	if o.MaxHistory != 0 {
		f = append(f, fmt.Sprintf("max-history=%d", o.MaxHistory))
	}
	if o.Kind == "rollback" {
		f = append(f, fmt.Sprintf("to=%d", o.Version))
	}
	s := o.Kind
	if o.Chart != nil {
		s += " " + o.Chart.ID()
	}
	if len(o.Values) > 0 {
		b, _ := json.Marshal(o.Values)
		s += " values=" + string(b)
	}
	if len(f) > 0 {
		s += " [" + strings.Join(f, ",") + "]"
	}
	return s
}

// Shape is Short without chart content and values: the key part of a finding.
func (o Op) Shape() string {
	c := o
	c.Chart = nil
	c.Values = nil
	return c.Short()
}

// Result is everything an operation returned or caused.
type Result struct {
	Err      string        `json:"err,omitempty"`
	Failed   bool          `json:"failed"`
	Release  *rspb.Release `json:"-"`
	Info     string        `json:"info,omitempty"` // uninstall response Info
	Log      []sim.Entry   `json:"-"`
	Calls    []sim.Call    `json:"-"`
	FaultHit bool          `json:"fault_hit"`
	Crashed  bool          `json:"crashed"`
}

// ErrClass buckets error texts into stable classes for outcome statistics.
func (r Result) ErrClass() string {
	e := r.Err
	switch {
	case !r.Failed:
		return "ok"
	case strings.Contains(e, "cannot reuse a name"):
		return "name-in-use"
	case strings.Contains(e, "has no deployed releases"):
		return "no-deployed"
	case strings.Contains(e, "another operation"):
		return "pending"
	case strings.Contains(e, "already exists"):
		return "exists"
	case strings.Contains(e, "not found"):
		return "not-found"
	case strings.Contains(e, "injected"):
		return "injected"
	case strings.Contains(e, "cannot be imported") || strings.Contains(e, "invalid ownership"):
		return "ownership"
	case strings.Contains(e, "has no"):
		return "no-revision"
	case strings.Contains(e, "already deleted"):
		return "already-deleted"
	}
	return "other"
}

// recordingPR is an identity post-renderer (its presence must not make a
// dry run write anything).
type recordingPR struct{}

func (recordingPR) Run(in *bytes.Buffer) (*bytes.Buffer, error) { return in, nil }

// Exec runs one operation on the world (mutating it) with at most one fault.
// thread is the logical thread id used in the request log.
func (w *World) Exec(op Op, fault *sim.Fault) Result {
	return w.ExecThread(op, fault, 0, nil, true)
}

// ExecThread is Exec for the interleaving explorer: several operations share
// one world (and, for the memory driver, one driver instance); beginOp=false
// leaves the per-operation fault state alone.
func (w *World) ExecThread(op Op, fault *sim.Fault, thread int, sharedMem *driver.Memory, beginOp bool) (res Result) {
	if beginOp {
		w.Sim.BeginOp(fault)
	}
	name := op.Release
	if name == "" {
		name = "r"
	}
	kc, g := NewKube(w.Sim, thread)
	st, mem := w.NewStorage(thread, sharedMem)
	cfg := &action.Configuration{
		RESTClientGetter: g,
		KubeClient:       kc,
		Releases:         st,
		Capabilities:     chartutil.DefaultCapabilities.Copy(),
	}
	var vals map[string]any
	if op.Values != nil {
		v, _ := copystructure.Copy(op.Values)
		vals = v.(map[string]any)
	} else if !op.NilValues {
		vals = map[string]any{}
	}
	var ch *chart.Chart
	if op.Chart != nil {
		ch = op.Chart.Build()
	}
	defer func() {
		if p := recover(); p != nil {
			res.Failed = true
			res.Err = fmt.Sprintf("PANIC: %v", p)
		}
		if sharedMem == nil {
			w.FlushMem(mem)
		}
		res.Log = w.Sim.SnapshotLog()
		res.Calls = w.Sim.SnapshotCalls()
		res.FaultHit = w.Sim.FaultHit()
		res.Crashed = w.Sim.Crashed()
	}()
	var err error
	switch op.Kind {
	case "install":
		a := action.NewInstall(cfg)
		a.ReleaseName, a.Namespace = name, Namespace
		a.Atomic, a.Replace, a.DisableHooks, a.Force, a.TakeOwnership = op.Atomic, op.Replace, op.DisableHooks, op.Force, op.TakeOwnership
		a.DryRun, a.DryRunOption, a.ClientOnly = op.DryRun, op.DryRunOption, op.ClientOnly
		a.SkipSchemaValidation, a.CreateNamespace, a.SkipCRDs, a.IncludeCRDs = op.SkipSchemaValidation, op.CreateNamespace, op.SkipCRDs, op.IncludeCRDs
		a.SubNotes, a.HideSecret, a.IsUpgrade, a.WaitForJobs = op.SubNotes, op.HideSecret, op.IsUpgrade, op.WaitForJobs
		a.Labels, a.Description = op.Labels, op.Description
		a.Timeout = time.Second
		if op.PostRender {
			a.PostRenderer = recordingPR{}
		}
		res.Release, err = a.Run(ch, vals)
	case "upgrade":
		a := action.NewUpgrade(cfg)
		a.Namespace = Namespace
		a.Atomic, a.DisableHooks, a.Force, a.TakeOwnership, a.CleanupOnFail = op.Atomic, op.DisableHooks, op.Force, op.TakeOwnership, op.CleanupOnFail
		a.DryRun, a.DryRunOption = op.DryRun, op.DryRunOption
		a.MaxHistory = op.MaxHistory
		a.ResetValues, a.ReuseValues, a.ResetThenReuseValues = op.ResetValues, op.ReuseValues, op.ResetThenReuseValues
		a.SkipSchemaValidation, a.SubNotes, a.HideSecret, a.WaitForJobs, a.Recreate = op.SkipSchemaValidation, op.SubNotes, op.HideSecret, op.WaitForJobs, op.Recreate
		a.Labels, a.Description = op.Labels, op.Description
		a.Timeout = time.Second
		if op.PostRender {
			a.PostRenderer = recordingPR{}
		}
		res.Release, err = a.Run(name, ch, vals)
	case "rollback":
		a := action.NewRollback(cfg)
		a.Version, a.DisableHooks, a.Force, a.CleanupOnFail, a.MaxHistory = op.Version, op.DisableHooks, op.Force, op.CleanupOnFail, op.MaxHistory
		a.DryRun = op.DryRun || op.DryRunOption != ""
		a.WaitForJobs, a.Recreate = op.WaitForJobs, op.Recreate
		a.Timeout = time.Second
		err = a.Run(name)
	case "uninstall":
		a := action.NewUninstall(cfg)
		a.DisableHooks, a.KeepHistory = op.DisableHooks, op.KeepHistory
		a.DryRun = op.DryRun || op.DryRunOption != ""
		a.IgnoreNotFound = op.IgnoreNotFound
		a.Description = op.Description
		a.Timeout = time.Second
		var r *rspb.UninstallReleaseResponse
		r, err = a.Run(name)
		if r != nil {
			res.Release, res.Info = r.Release, r.Info
		}
	default:
		panic("op kind " + op.Kind)
	}
	if err != nil {
		res.Failed = true
		res.Err = err.Error()
	}
	return res
}

// ---------- canonical state ----------

// RevSummary is the comparable part of one stored revision.
type RevSummary struct {
	Rev      int    `json:"rev"`
	Status   string `json:"status"`
	Chart    string `json:"chart"`
	Manifest string `json:"manifest_id"`
	Config   string `json:"config"`
	Hooks    int    `json:"hooks"`
}

func Summarise(r *rspb.Release) RevSummary {
	s := RevSummary{Rev: r.Version, Manifest: fmt.Sprintf("%x", hash32(r.Manifest)), Hooks: len(r.Hooks)}
	if r.Info != nil {
		s.Status = r.Info.Status.String()
	}
	if r.Chart != nil && r.Chart.Metadata != nil {
		s.Chart = r.Chart.Metadata.Name + "-" + r.Chart.Metadata.Version
	}
	b, _ := json.Marshal(r.Config)
	s.Config = string(b)
	return s
}

func hash32(s string) uint32 {
	h := uint32(2166136261)
	for i := 0; i < len(s); i++ {
		h ^= uint32(s[i])
		h *= 16777619
	}
	return h
}

// Canon is the canonical form of a world: release records reduced to the
// fields actions read when deciding what to do next, and all other objects
// byte for byte. Timestamps, descriptions and createdAt/modifiedAt labels
// are dropped.
func (w *World) Canon() string {
	var sb strings.Builder
	sb.WriteString(w.Driver + "\n")
	for _, r := range w.Mem {
		b, _ := json.Marshal(Summarise(r))
		fmt.Fprintf(&sb, "mem %s %s labels=%v\n", r.Name, b, userLabels(r.Labels))
	}
	for _, p := range w.Sim.Paths() {
		b, _ := w.Sim.Get(p)
		if sim.IsRecordPath(p) && w.Sim.StorageResource != "" && strings.Contains(p, "/"+w.Sim.StorageResource+"/") {
			r, lbls, err := DecodeRecord(w.Sim.StorageResource, b)
			if err == nil {
				sb2, _ := json.Marshal(Summarise(r))
				fmt.Fprintf(&sb, "rec %s %s labels=%v\n", p, sb2, userLabels(lbls))
				continue
			}
		}
		fmt.Fprintf(&sb, "obj %s %s\n", p, b)
	}
	return sb.String()
}

func userLabels(l map[string]string) string {
	var ks []string
	for k := range l {
		switch k {
		case "createdAt", "modifiedAt":
		default:
			ks = append(ks, k+"="+l[k])
		}
	}
	sort.Strings(ks)
	return strings.Join(ks, ",")
}

// StatusVector renders a history compactly: "1:superseded 2:deployed".
func StatusVector(h []*rspb.Release) string {
	var parts []string
	for _, r := range h {
		parts = append(parts, fmt.Sprintf("%d:%s", r.Version, r.Info.Status))
	}
	return strings.Join(parts, " ")
}
