package hx

import (
	"context"
	"fmt"
	"sort"
	"strings"

	corev1 "k8s.io/api/core/v1"
	apierrors "k8s.io/apimachinery/pkg/api/errors"
	metav1 "k8s.io/apimachinery/pkg/apis/meta/v1"
	"k8s.io/apimachinery/pkg/types"
	"k8s.io/client-go/kubernetes"
	"k8s.io/client-go/kubernetes/fake"

	"verif/harness/internal/sim"
)

// SimSelfCheck validates the simulated API server against client-go's object
// tracker (kubernetes/fake): every sequence of length <= 3 over
// {create, update, get, delete, list, merge-patch, strategic-patch} x 2
// ConfigMaps is driven through the typed clientset against both; result
// classes (ok / already-exists / not-found) and the visible content must
// agree. It returns the number of sequences compared.
func SimSelfCheck() (int, error) {
	type op struct {
		kind string
		obj  int
	}
	var alphabet []op
	for _, k := range []string{"create", "update", "get", "delete", "mpatch", "spatch"} {
		for o := 0; o < 2; o++ {
			alphabet = append(alphabet, op{k, o})
		}
	}
	alphabet = append(alphabet, op{"list", 0}, op{"listsel", 0})
	names := []string{"o1", "o2"}
	mk := func(o int, v string) *corev1.ConfigMap {
		return &corev1.ConfigMap{ObjectMeta: metav1.ObjectMeta{Name: names[o], Namespace: Namespace, Labels: map[string]string{"sel": fmt.Sprint(o)}}, Data: map[string]string{"k": v}}
	}
	class := func(err error) string {
		switch {
		case err == nil:
			return "ok"
		case apierrors.IsAlreadyExists(err):
			return "exists"
		case apierrors.IsNotFound(err):
			return "notfound"
		}
		return "other:" + err.Error()
	}
	apply := func(cs kubernetes.Interface, step int, o op) string {
		api := cs.CoreV1().ConfigMaps(Namespace)
		ctx := context.Background()
		switch o.kind {
		case "create":
			_, err := api.Create(ctx, mk(o.obj, fmt.Sprintf("c%d", step)), metav1.CreateOptions{})
			return class(err)
		case "update":
			_, err := api.Update(ctx, mk(o.obj, fmt.Sprintf("u%d", step)), metav1.UpdateOptions{})
			return class(err)
		case "get":
			g, err := api.Get(ctx, names[o.obj], metav1.GetOptions{})
			if err != nil {
				return class(err)
			}
			return "ok:" + g.Data["k"] + "/" + g.Data["p"]
		case "delete":
			return class(api.Delete(ctx, names[o.obj], metav1.DeleteOptions{}))
		case "mpatch":
			g, err := api.Patch(ctx, names[o.obj], types.MergePatchType, []byte(fmt.Sprintf(`{"data":{"p":"m%d"}}`, step)), metav1.PatchOptions{})
			if err != nil {
				return class(err)
			}
			return "ok:" + g.Data["k"] + "/" + g.Data["p"]
		case "spatch":
			g, err := api.Patch(ctx, names[o.obj], types.StrategicMergePatchType, []byte(fmt.Sprintf(`{"data":{"p":"s%d"}}`, step)), metav1.PatchOptions{})
			if err != nil {
				return class(err)
			}
			return "ok:" + g.Data["k"] + "/" + g.Data["p"]
		case "list", "listsel":
			opts := metav1.ListOptions{}
			if o.kind == "listsel" {
				opts.LabelSelector = "sel=1"
			}
			l, err := api.List(ctx, opts)
			if err != nil {
				return class(err)
			}
			var items []string
			for _, it := range l.Items {
				items = append(items, it.Name+"="+it.Data["k"]+"/"+it.Data["p"])
			}
			sort.Strings(items)
			return "ok:[" + strings.Join(items, ",") + "]"
		}
		return "?"
	}
	n := 0
	var seq []op
	var rec func(depth int) error
	rec = func(depth int) error {
		if depth > 0 {
			n++
			w := NewWorld("memory")
			simCS := w.clientset(0)
			var fakeCS kubernetes.Interface = fake.NewSimpleClientset()
			for i, o := range seq {
				a, b := apply(simCS, i, o), apply(fakeCS, i, o)
				if a != b {
					return fmt.Errorf("sim and client-go's object tracker disagree at step %d of %v: sim %q, tracker %q", i, seq, a, b)
				}
			}
		}
		if depth == 3 {
			return nil
		}
		for _, o := range alphabet {
			seq = append(seq, o)
			if err := rec(depth + 1); err != nil {
				return err
			}
			seq = seq[:len(seq)-1]
		}
		return nil
	}
	err := rec(0)
	_ = sim.RecordPrefix
	return n, err
}
