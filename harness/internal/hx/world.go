// Package hx closes the system around Helm's real action code: a World is a
// simulated cluster plus a storage backend; operations are executed through
// action.Install/Upgrade/Rollback/Uninstall with a fresh Configuration per
// operation (a new "process"), the real kube.Client and the real storage
// drivers.
package hx

import (
	"bytes"
	"compress/gzip"
	"encoding/base64"
	"encoding/json"
	"fmt"
	"io"
	"sort"
	"strings"
	"time"

	"github.com/mitchellh/copystructure"
	corev1 "k8s.io/api/core/v1"
	"k8s.io/apimachinery/pkg/api/meta"
	"k8s.io/apimachinery/pkg/api/meta/testrestmapper"
	"k8s.io/apimachinery/pkg/runtime/schema"
	"k8s.io/client-go/discovery"
	"k8s.io/client-go/discovery/cached/memory"
	"k8s.io/client-go/kubernetes"
	"k8s.io/client-go/kubernetes/scheme"
	"k8s.io/client-go/rest"
	"k8s.io/client-go/tools/clientcmd"
	clientcmdapi "k8s.io/client-go/tools/clientcmd/api"
	"k8s.io/kubectl/pkg/validation"

	"helm.sh/helm/v4/pkg/kube"
	rspb "helm.sh/helm/v4/pkg/release/v1"
	"helm.sh/helm/v4/pkg/storage"
	"helm.sh/helm/v4/pkg/storage/driver"

	"verif/harness/internal/sim"
)

// Namespace used by all scenarios.
const Namespace = "default"

// Drivers in the order they are explored.
var Drivers = []string{"memory", "secrets", "configmaps"}

// World is one state of the closed system.
type World struct {
	Driver string
	Sim    *sim.Sim
	// Mem holds the records when Driver == "memory".
	Mem []*rspb.Release
}

// NewWorld creates an empty cluster with the given storage driver.
func NewWorld(drv string) *World {
	w := &World{Driver: drv, Sim: sim.New()}
	switch drv {
	case "secrets":
		w.Sim.StorageResource = "secrets"
	case "configmaps":
		w.Sim.StorageResource = "configmaps"
	}
	res := w.Sim.StorageResource
	w.Sim.ObsNormalize = func(class string, body []byte) []byte {
		if class != "record-read" && class != "record-write" {
			return body
		}
		return normaliseRecordBody(res, body)
	}
	return w
}

// Clone deep-copies the state.
func (w *World) Clone() *World {
	c := &World{Driver: w.Driver, Sim: w.Sim.Clone()}
	for _, r := range w.Mem {
		c.Mem = append(c.Mem, CopyRelease(r))
	}
	return c
}

// CopyRelease copies everything an action may mutate; the chart is shared
// (actions never mutate a stored chart).
func CopyRelease(r *rspb.Release) *rspb.Release {
	c := *r
	if r.Info != nil {
		i := *r.Info
		c.Info = &i
	}
	if r.Config != nil {
		v, _ := copystructure.Copy(r.Config)
		c.Config = v.(map[string]interface{})
	}
	if r.Labels != nil {
		c.Labels = map[string]string{}
		for k, v := range r.Labels {
			c.Labels[k] = v
		}
	}
	c.Hooks = nil
	for _, h := range r.Hooks {
		hc := *h
		hc.Events = append([]rspb.HookEvent{}, h.Events...)
		hc.DeletePolicies = append([]rspb.HookDeletePolicy{}, h.DeletePolicies...)
		c.Hooks = append(c.Hooks, &hc)
	}
	return &c
}

// ---------- REST plumbing ----------

var mapper meta.RESTMapper

func init() {
	custom := meta.NewDefaultRESTMapper(nil)
	custom.Add(schema.GroupVersionKind{Group: "example.verif", Version: "v1", Kind: "Widget"}, meta.RESTScopeNamespace)
	custom.Add(schema.GroupVersionKind{Group: "example.verif", Version: "v1", Kind: "Gadget"}, meta.RESTScopeNamespace)
	mapper = meta.MultiRESTMapper{testrestmapper.TestOnlyStaticRESTMapper(scheme.Scheme), custom}
}

type getter struct {
	tr rest.Config
}

func newGetter(s *sim.Sim, thread int) *getter {
	return &getter{tr: rest.Config{Host: "http://sim", Transport: s.Transport(thread), QPS: -1,
		ContentConfig: rest.ContentConfig{ContentType: "application/json", AcceptContentTypes: "application/json"}}}
}

func (g *getter) ToRESTConfig() (*rest.Config, error) { c := g.tr; return &c, nil }
func (g *getter) ToDiscoveryClient() (discovery.CachedDiscoveryInterface, error) {
	c := g.tr
	dc, err := discovery.NewDiscoveryClientForConfig(&c)
	if err != nil {
		return nil, err
	}
	return memory.NewMemCacheClient(dc), nil
}
func (g *getter) ToRESTMapper() (meta.RESTMapper, error) { return mapper, nil }
func (g *getter) ToRawKubeConfigLoader() clientcmd.ClientConfig {
	return clientcmd.NewDefaultClientConfig(clientcmdapi.Config{}, &clientcmd.ConfigOverrides{Context: clientcmdapi.Context{Namespace: Namespace}})
}

// nullValidatorFactory disables OpenAPI schema download (the sim serves none).
type nullValidatorFactory struct{ kube.Factory }

func (nullValidatorFactory) Validator(string) (validation.Schema, error) {
	return validation.NullSchema{}, nil
}

// Client is the real kube.Client with only the waiter replaced.
type Client struct {
	*kube.Client
	W *Waiter
}

func (c *Client) GetWaiter(kube.WaitStrategy) (kube.Waiter, error) { return c.W, nil }

// Waiter is the scripted readiness/hook waiter. Every call is a faultable
// call of the operation.
type Waiter struct {
	s      *sim.Sim
	thread int
}

func (w *Waiter) call(label string, rs kube.ResourceList) error {
	names := []string{}
	for _, r := range rs {
		names = append(names, r.Name)
	}
	sort.Strings(names)
	full := "wait:" + label
	if label == "WatchUntilReady" && len(names) > 0 {
		full += " " + strings.Join(names, ",")
	}
	f := w.s.Enter(w.thread, full, "wait", false)
	w.s.LogEntry(sim.Entry{Thread: w.thread, Verb: "WAIT", Path: strings.Join(names, ","), Label: full, Class: "wait", Fault: f})
	if w.s.Done != nil {
		defer w.s.Done(w.thread, full, "wait")
	}
	if f != "" {
		return fmt.Errorf("injected: %s at %s", f, full)
	}
	return nil
}

func (w *Waiter) Wait(rs kube.ResourceList, _ time.Duration) error { return w.call("Wait", rs) }
func (w *Waiter) WaitWithJobs(rs kube.ResourceList, _ time.Duration) error {
	return w.call("WaitWithJobs", rs)
}
func (w *Waiter) WaitForDelete(rs kube.ResourceList, _ time.Duration) error {
	return w.call("WaitForDelete", rs)
}
func (w *Waiter) WatchUntilReady(rs kube.ResourceList, _ time.Duration) error {
	return w.call("WatchUntilReady", rs)
}

// NewKube builds the real kube.Client over the sim for one logical thread.
func NewKube(s *sim.Sim, thread int) (*Client, *getter) {
	g := newGetter(s, thread)
	kc := kube.New(g)
	kc.Namespace = Namespace
	kc.Factory = nullValidatorFactory{kc.Factory}
	return &Client{Client: kc, W: &Waiter{s: s, thread: thread}}, g
}

// ---------- storage ----------

// faultDriver wraps the memory driver so that its calls are faultable calls
// of the operation, like HTTP requests are for the Kubernetes backends.
type faultDriver struct {
	driver.Driver
	s      *sim.Sim
	thread int
}

func relOfKey(key string) string { return strings.TrimPrefix(key, sim.RecordPrefix) }

func (d *faultDriver) write(label string, fn func() error) error {
	f := d.s.Enter(d.thread, label, "store-write", true)
	e := sim.Entry{Thread: d.thread, Verb: "STORE", Label: label, Class: "store-write", Fault: f}
	if d.s.Done != nil {
		defer d.s.Done(d.thread, label, "store-write")
	}
	if f != "" {
		e.Code = 500
		d.s.LogEntry(e)
		return fmt.Errorf("injected: %s at %s", f, label)
	}
	err := fn()
	e.Applied = err == nil
	d.s.LogEntry(e)
	d.s.Observe(d.thread, label, 0, []byte(fmt.Sprint(err)))
	return err
}

func (d *faultDriver) observeRead(label string, rs []*rspb.Release, err error) {
	var sb strings.Builder
	fmt.Fprint(&sb, err)
	for _, r := range rs {
		if r == nil {
			continue
		}
		b, _ := json.Marshal(Summarise(r))
		sb.Write(b)
	}
	d.s.Observe(d.thread, label, 0, []byte(sb.String()))
}

func (d *faultDriver) read(label string) error {
	f := d.s.Enter(d.thread, label, "store-read", false)
	if d.s.Done != nil {
		defer d.s.Done(d.thread, label, "store-read")
	}
	if f != "" {
		return fmt.Errorf("injected: %s at %s", f, label)
	}
	return nil
}

func (d *faultDriver) Create(key string, r *rspb.Release) error {
	return d.write("store:Create "+relOfKey(key), func() error { return d.Driver.Create(key, r) })
}
func (d *faultDriver) Update(key string, r *rspb.Release) error {
	return d.write("store:Update "+relOfKey(key), func() error { return d.Driver.Update(key, r) })
}
func (d *faultDriver) Delete(key string) (*rspb.Release, error) {
	var out *rspb.Release
	err := d.write("store:Delete "+relOfKey(key), func() error { var e error; out, e = d.Driver.Delete(key); return e })
	return out, err
}
func (d *faultDriver) Get(key string) (*rspb.Release, error) {
	if err := d.read("store:Get " + relOfKey(key)); err != nil {
		return nil, err
	}
	r, err := d.Driver.Get(key)
	d.observeRead("store:Get "+relOfKey(key), []*rspb.Release{r}, err)
	return r, err
}
func (d *faultDriver) List(f func(*rspb.Release) bool) ([]*rspb.Release, error) {
	if err := d.read("store:List"); err != nil {
		return nil, err
	}
	rs, err := d.Driver.List(f)
	d.observeRead("store:List", rs, err)
	return rs, err
}
func (d *faultDriver) Query(q map[string]string) ([]*rspb.Release, error) {
	if err := d.read("store:Query"); err != nil {
		return nil, err
	}
	rs, err := d.Driver.Query(q)
	d.observeRead("store:Query", rs, err)
	return rs, err
}

// NewStorage builds the storage for one operation. For the memory driver a
// fresh driver.Memory is hydrated from the world's records; Flush writes the
// records back after the operation.
func (w *World) NewStorage(thread int, shared *driver.Memory) (*storage.Storage, *driver.Memory) {
	switch w.Driver {
	case "memory":
		mem := shared
		if mem == nil {
			mem = driver.NewMemory()
			mem.SetNamespace(Namespace)
			for _, r := range w.Mem {
				rc := CopyRelease(r)
				mem.Create(recKey(rc.Name, rc.Version), rc)
			}
		}
		return storage.Init(&faultDriver{Driver: mem, s: w.Sim, thread: thread}), mem
	case "secrets":
		cs := w.clientset(thread)
		return storage.Init(driver.NewSecrets(cs.CoreV1().Secrets(Namespace))), nil
	case "configmaps":
		cs := w.clientset(thread)
		return storage.Init(driver.NewConfigMaps(cs.CoreV1().ConfigMaps(Namespace))), nil
	}
	panic("driver " + w.Driver)
}

func (w *World) clientset(thread int) *kubernetes.Clientset {
	g := newGetter(w.Sim, thread)
	cfg, _ := g.ToRESTConfig()
	cs, err := kubernetes.NewForConfig(cfg)
	if err != nil {
		panic(err)
	}
	return cs
}

func recKey(name string, v int) string { return fmt.Sprintf("%s%s.v%d", sim.RecordPrefix, name, v) }

// FlushMem copies the memory driver's content back into the world.
func (w *World) FlushMem(mem *driver.Memory) {
	if mem == nil {
		return
	}
	rs, _ := mem.List(func(*rspb.Release) bool { return true })
	sort.Slice(rs, func(i, j int) bool {
		if rs[i].Name != rs[j].Name {
			return rs[i].Name < rs[j].Name
		}
		return rs[i].Version < rs[j].Version
	})
	w.Mem = nil
	for _, r := range rs {
		w.Mem = append(w.Mem, CopyRelease(r))
	}
}

// ReadStorage returns a storage handle for oracles: reads only, never
// faulted, not logged as part of any operation.
func (w *World) ReadStorage() *storage.Storage {
	switch w.Driver {
	case "memory":
		mem := driver.NewMemory()
		mem.SetNamespace(Namespace)
		for _, r := range w.Mem {
			rc := CopyRelease(r)
			mem.Create(recKey(rc.Name, rc.Version), rc)
		}
		return storage.Init(mem)
	default:
		// an independent sim view so that oracle reads do not disturb logs/fault counters
		view := w.Sim.Clone()
		vw := &World{Driver: w.Driver, Sim: view}
		st, _ := vw.NewStorage(99, nil)
		return st
	}
}

// History returns the stored revisions of a release sorted by revision, read
// through the public storage API.
func (w *World) History(name string) []*rspb.Release {
	st := w.ReadStorage()
	h, err := st.History(name)
	if err != nil {
		return nil
	}
	sort.SliceStable(h, func(i, j int) bool { return h[i].Version < h[j].Version })
	return h
}

// DecodeRecord decodes the payload of a Secret/ConfigMap release record.
func DecodeRecord(resource string, obj []byte) (*rspb.Release, map[string]string, error) {
	var data string
	var lbls map[string]string
	if resource == "secrets" {
		var s corev1.Secret
		if err := json.Unmarshal(obj, &s); err != nil {
			return nil, nil, err
		}
		data, lbls = string(s.Data["release"]), s.Labels
	} else {
		var c corev1.ConfigMap
		if err := json.Unmarshal(obj, &c); err != nil {
			return nil, nil, err
		}
		data, lbls = c.Data["release"], c.Labels
	}
	b, err := base64.StdEncoding.DecodeString(data)
	if err != nil {
		return nil, lbls, err
	}
	if len(b) > 3 && b[0] == 0x1f && b[1] == 0x8b && b[2] == 0x08 {
		zr, err := gzip.NewReader(bytes.NewReader(b))
		if err != nil {
			return nil, lbls, err
		}
		b, err = io.ReadAll(zr)
		if err != nil {
			return nil, lbls, err
		}
	}
	var r rspb.Release
	if err := json.Unmarshal(b, &r); err != nil {
		return nil, lbls, err
	}
	return &r, lbls, nil
}

// normaliseRecordBody reduces a response carrying release records (object or
// list) to the summaries of the records, so that observation hashes do not
// depend on wall-clock timestamps stored in records.
func normaliseRecordBody(resource string, body []byte) []byte {
	var probe struct {
		Kind  string            `json:"kind"`
		Items []json.RawMessage `json:"items"`
	}
	if err := json.Unmarshal(body, &probe); err != nil {
		return body
	}
	var sb strings.Builder
	one := func(b []byte) {
		r, lbls, err := DecodeRecord(resource, b)
		if err != nil || r == nil {
			sb.Write(b)
			return
		}
		s, _ := json.Marshal(Summarise(r))
		sb.Write(s)
		sb.WriteString(userLabels(lbls))
		sb.WriteString(";")
	}
	switch {
	case strings.HasSuffix(probe.Kind, "List"):
		sb.WriteString("list:")
		for _, it := range probe.Items {
			one(it)
		}
	case probe.Kind == "Status":
		return body
	default:
		one(body)
	}
	return []byte(sb.String())
}
