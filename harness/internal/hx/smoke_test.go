package hx

import (
	"fmt"
	"testing"
	"time"
)

func TestSmoke(t *testing.T) {
	for _, drv := range Drivers {
		w := NewWorld(drv)
		A := &ChartSpec{Name: "c", Version: "1", Resources: []ResSpec{{Kind: "ConfigMap", Name: "a", Variant: 1}, {Kind: "Service", Name: "s", Variant: 1}, {Kind: "Widget", Name: "w", Variant: 1}},
			Hooks: []HookSpec{{Name: "h1", Kind: "ConfigMap", Events: []string{"pre-install", "pre-upgrade"}, Weight: 0}}}
		B := &ChartSpec{Name: "c", Version: "2", Resources: []ResSpec{{Kind: "ConfigMap", Name: "a", Variant: 2}, {Kind: "Secret", Name: "x", Variant: 1}, {Kind: "Widget", Name: "w", Variant: 2}}}
		t0 := time.Now()
		r := w.Exec(Op{Kind: "install", Chart: A}, nil)
		fmt.Println(drv, "install:", r.Err, time.Since(t0))
		for _, e := range r.Log {
			fmt.Printf("   %d %s %s %d %s\n", e.Seq, e.Class, e.Label, e.Code, e.Fault)
		}
		t0 = time.Now()
		r = w.Exec(Op{Kind: "upgrade", Chart: B}, nil)
		fmt.Println(drv, "upgrade:", r.Err, time.Since(t0))
		for _, e := range r.Log {
			fmt.Printf("   %d %s %s %d %s\n", e.Seq, e.Class, e.Label, e.Code, e.Fault)
		}
		r = w.Exec(Op{Kind: "rollback"}, nil)
		fmt.Println(drv, "rollback:", r.Err)
		fmt.Println(StatusVector(w.History("r")))
		r = w.Exec(Op{Kind: "uninstall"}, nil)
		fmt.Println(drv, "uninstall:", r.Err, w.Sim.Paths())
		for _, e := range r.Log {
			fmt.Printf("   %d %s %s %d %s\n", e.Seq, e.Class, e.Label, e.Code, e.Fault)
		}
	}
}
