// Package opspace is the explicit-state search over operation histories: BFS
// over canonical world states, every transition being a real Helm action run
// on a clone of the state with at most one injected fault (or process death)
// whose possible placements are discovered from the fault-free run.
package opspace

import (
	"encoding/json"
	"fmt"
	"strings"
	"sync"

	rspb "helm.sh/helm/v4/pkg/release/v1"

	"verif/harness/internal/core"
	"verif/harness/internal/hx"
	"verif/harness/internal/sim"
)

// Step is one element of a history.
type Step struct {
	Op    hx.Op      `json:"op"`
	Fault *sim.Fault `json:"fault,omitempty"`
	// Env, when set, is an environment step (out-of-band edit) instead of an operation.
	Env *EnvStep `json:"env,omitempty"`
}

// EnvStep is an out-of-band change of the cluster between operations.
type EnvStep struct {
	Kind string `json:"kind"` // edit | foreign | delete | keep-on | keep-off | put
	Path string `json:"path"`
	// Obj is used by "put".
	Obj json.RawMessage `json:"obj,omitempty"`
}

func (s Step) String() string {
	if s.Env != nil {
		return "env:" + s.Env.Kind + " " + shortPath(s.Env.Path)
	}
	if s.Fault != nil {
		return s.Op.Short() + " !" + s.Fault.String()
	}
	return s.Op.Short()
}

func shortPath(p string) string {
	i := strings.Index(p, "/namespaces/")
	if i >= 0 {
		return p[i+len("/namespaces/"):]
	}
	return p
}

// Transition is what oracles see.
type Transition struct {
	Driver   string
	Init     string
	Pre      *hx.World
	Post     *hx.World
	PreHist  []*rspb.Release
	PostHist []*rspb.Release
	Step     Step
	Res      hx.Result
	Path     []Step // including Step
	Depth    int
	Faulty   int // number of faulty steps on Path
	// Base is the fault-free transition of the same step from the same state
	// (set on faulty transitions only).
	Base *Transition
}

// Config parameterises one search.
type Config struct {
	Property string
	Release  string
	Drivers  []string
	// Inits names the initial states; MakeInit builds one.
	Inits    []string
	MakeInit func(driver, init string) *hx.World
	// Alphabet lists the steps enabled in a state reached by path.
	Alphabet func(w *hx.World, hist []*rspb.Release, path []Step) []Step
	MaxDepth int
	// DepthFor, when set, overrides MaxDepth per initial state.
	DepthFor func(init string) int
	// MaxFaulty bounds the number of faulty steps on a path.
	MaxFaulty int
	// FaultKinds lists the fault kinds to inject at a call of an operation.
	FaultKinds func(driver string, op hx.Op, c sim.Call) []string
	// FaultDepths restricts the depths (0-based step index) at which faults are injected; nil = all.
	FaultAt func(depth int, path []Step) bool
	// Check is called on every executed transition.
	Check func(c *core.Ctx, t *Transition)
	// Expand decides whether the search continues from t.Post (default: yes).
	Expand func(t *Transition) bool
	// KeyExtra lets the state key include more than the canonical world.
	KeyExtra func(t *Transition) string
}

// Replay is what a violation stores.
type Replay struct {
	Driver string `json:"driver"`
	Init   string `json:"init"`
	Path   []Step `json:"path"`
}

func (cfg *Config) release() string {
	if cfg.Release != "" {
		return cfg.Release
	}
	return "r"
}

// ApplyEnv performs an environment step on a world.
func ApplyEnv(w *hx.World, e *EnvStep) {
	switch e.Kind {
	case "delete":
		w.Sim.Remove(e.Path)
	case "put":
		var v any
		json.Unmarshal(e.Obj, &v)
		w.Sim.Put(e.Path, v)
	default:
		b, ok := w.Sim.Get(e.Path)
		if !ok {
			return
		}
		var m map[string]any
		json.Unmarshal(b, &m)
		md, _ := m["metadata"].(map[string]any)
		if md == nil {
			md = map[string]any{}
			m["metadata"] = md
		}
		switch e.Kind {
		case "edit":
			// change a manifest-specified field
			for _, f := range []string{"data", "spec"} {
				if d, ok := m[f].(map[string]any); ok {
					if _, ok := d["k"]; ok {
						d["k"] = "edited"
					}
					if _, ok := d["size"]; ok {
						d["size"] = float64(99)
					}
					if names, ok := d["names"].(map[string]any); ok {
						if _, ok := names["singular"]; ok {
							names["singular"] = "edited"
						}
					}
					if sel, ok := d["selector"].(map[string]any); ok {
						if _, ok := sel["app"]; ok {
							sel["app"] = "edited"
						}
					}
				}
			}
		case "foreign":
			lb, _ := md["labels"].(map[string]any)
			if lb == nil {
				lb = map[string]any{}
				md["labels"] = lb
			}
			lb["foreign"] = "yes"
			for _, f := range []string{"data", "spec"} {
				if d, ok := m[f].(map[string]any); ok {
					d["foreignField"] = "f"
				}
			}
		case "keep-on", "keep-off":
			an, _ := md["annotations"].(map[string]any)
			if an == nil {
				an = map[string]any{}
				md["annotations"] = an
			}
			if e.Kind == "keep-on" {
				an["helm.sh/resource-policy"] = "keep"
			} else {
				delete(an, "helm.sh/resource-policy")
			}
		}
		w.Sim.Put(e.Path, m)
	}
}

// exec runs one step on a clone of pre and returns the transition.
func (cfg *Config) exec(driver, init string, pre *hx.World, preHist []*rspb.Release, path []Step, step Step, faulty int) *Transition {
	post := pre.Clone()
	t := &Transition{Driver: driver, Init: init, Pre: pre, Post: post, PreHist: preHist, Step: step,
		Path: append(append([]Step{}, path...), step), Depth: len(path) + 1, Faulty: faulty}
	if step.Env != nil {
		ApplyEnv(post, step.Env)
	} else {
		op := step.Op
		if op.Release == "" {
			op.Release = cfg.release()
		}
		t.Res = post.Exec(op, step.Fault)
	}
	t.PostHist = post.History(cfg.release())
	return t
}

type node struct {
	w      *hx.World
	hist   []*rspb.Release
	path   []Step
	faulty int
}

var (
	selfCheckOnce sync.Once
	selfCheckN    int
	selfCheckErr  error
)

// Run explores this shard's part of the space.
func (cfg *Config) Run(c *core.Ctx) {
	if c.Shard == 0 {
		// harness self-validation (once per process): the simulated API server must agree with client-go's object tracker
		selfCheckOnce.Do(func() { selfCheckN, selfCheckErr = hx.SimSelfCheck() })
		if selfCheckErr != nil {
			c.NotExhaustive("simulated API server disagrees with client-go's object tracker: %v", selfCheckErr)
		} else {
			c.SetExtra("sim_fidelity_sequences_agreeing_with_client_go_tracker", selfCheckN)
		}
	}
	c.Bound("max_depth", fmt.Sprint(cfg.MaxDepth))
	c.Bound("max_faulty_steps_per_path", fmt.Sprint(cfg.MaxFaulty))
	for _, drv := range cfg.Drivers {
		for _, init := range cfg.Inits {
			w0 := cfg.MakeInit(drv, init)
			h0 := w0.History(cfg.release())
			c.State(w0.Canon())
			first := cfg.Alphabet(w0, h0, nil)
			for _, st := range first {
				// one unit of work per (driver, init, first step); the first step's
				// faults belong to the same unit.
				if !c.NextMine() {
					continue
				}
				seen := map[uint64]struct{}{}
				var frontier []node
				cfg.expandStep(c, drv, init, node{w: w0, hist: h0}, st, seen, &frontier)
				maxDepth := cfg.MaxDepth
				if cfg.DepthFor != nil {
					if d := cfg.DepthFor(init); d > 0 {
						maxDepth = d
					}
				}
				for len(frontier) > 0 {
					n := frontier[0]
					frontier = frontier[1:]
					if len(n.path) >= maxDepth {
						continue
					}
					for _, st2 := range cfg.Alphabet(n.w, n.hist, n.path) {
						cfg.expandStep(c, drv, init, n, st2, seen, &frontier)
					}
				}
			}
		}
	}
}

// expandStep executes a step fault-free and with every single fault placement.
func (cfg *Config) expandStep(c *core.Ctx, drv, init string, n node, st Step, seen map[uint64]struct{}, frontier *[]node) {
	t := cfg.exec(drv, init, n.w, n.hist, n.path, st, n.faulty)
	cfg.account(c, t, seen, frontier)
	if st.Env != nil || cfg.FaultKinds == nil || n.faulty >= cfg.MaxFaulty {
		return
	}
	if cfg.FaultAt != nil && !cfg.FaultAt(len(n.path), n.path) {
		return
	}
	for _, call := range t.Res.Calls {
		for _, kind := range cfg.FaultKinds(drv, st.Op, call) {
			fs := st
			fs.Fault = &sim.Fault{Label: call.Label, Occurrence: call.Occurrence, Kind: kind}
			ft := cfg.exec(drv, init, n.w, n.hist, n.path, fs, n.faulty+1)
			ft.Base = t
			if !ft.Res.FaultHit {
				// the call list of the fault-free run must reproduce: determinism guard
				c.NotExhaustive("fault %s not reached when re-running %s", fs.Fault, st.Op.Short())
				continue
			}
			cfg.account(c, ft, seen, frontier)
		}
	}
}

func (cfg *Config) account(c *core.Ctx, t *Transition, seen map[uint64]struct{}, frontier *[]node) {
	c.Transition(1)
	c.Eval(1)
	c.Depth(t.Depth)
	if cfg.Check != nil {
		cfg.Check(c, t)
	}
	canon := t.Post.Canon()
	c.State(canon)
	key := canon + fmt.Sprintf("|faulty=%d", t.Faulty)
	if cfg.KeyExtra != nil {
		key += "|" + cfg.KeyExtra(t)
	}
	h := core.Hash64(key)
	if _, ok := seen[h]; ok {
		return
	}
	seen[h] = struct{}{}
	if cfg.Expand != nil && !cfg.Expand(t) {
		return
	}
	*frontier = append(*frontier, node{w: t.Post, hist: t.PostHist, path: t.Path, faulty: t.Faulty})
}

// ReplayPath re-executes a recorded history from its initial state, calling
// check on every transition; it returns the transitions.
func (cfg *Config) ReplayPath(c *core.Ctx, r Replay) []*Transition {
	w := cfg.MakeInit(r.Driver, r.Init)
	hist := w.History(cfg.release())
	var path []Step
	var out []*Transition
	faulty := 0
	for _, st := range r.Path {
		if st.Fault != nil {
			faulty++
		}
		t := cfg.exec(r.Driver, r.Init, w, hist, path, st, faulty)
		if st.Fault != nil {
			bs := st
			bs.Fault = nil
			t.Base = cfg.exec(r.Driver, r.Init, w, hist, path, bs, faulty-1)
		}
		if cfg.Check != nil {
			cfg.Check(c, t)
		}
		out = append(out, t)
		w, hist, path = t.Post, t.PostHist, t.Path
	}
	return out
}

// PathStrings renders a path for samples and messages.
func PathStrings(p []Step) []string {
	var out []string
	for _, s := range p {
		out = append(out, s.String())
	}
	return out
}
