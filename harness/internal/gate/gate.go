// Package gate explores all interleavings of whole Helm operations at the
// granularity of individual storage and cluster calls. Each operation runs on
// its own logical thread against one shared world; before every call the
// thread parks at the gate until the scheduler grants it. Search is a
// stateless DFS with replay (goroutines cannot be cloned), pruned by a global
// state key (canonical world + per-thread observation hashes), optionally
// preemption-bounded.
package gate

import (
	"fmt"
	"sync/atomic"
	"time"

	"helm.sh/helm/v4/pkg/storage/driver"

	"verif/harness/internal/core"
	"verif/harness/internal/hx"
	"verif/harness/internal/sim"
)

// Scenario is one closed concurrent system.
type Scenario struct {
	Name   string  `json:"name"`
	Driver string  `json:"driver"`
	Setup  []hx.Op `json:"setup"` // run sequentially before the concurrent part
	Ops    []hx.Op `json:"ops"`   // one per thread
	Bound  int     `json:"bound"` // preemption bound; <0 = unbounded
	// Fault is one injected cluster-side fault for the concurrent part (use OnThread to aim it at one operation).
	Fault *sim.Fault `json:"fault,omitempty"`
	Tags  []string   `json:"tags,omitempty"`
}

// Step is one granted call.
type Step struct {
	Thread int    `json:"thread"`
	Label  string `json:"label"`
}

// Exec is one complete execution.
type Exec struct {
	Scenario *Scenario
	Choices  []int // chosen thread at every scheduling point
	Trace    []Step
	Results  []hx.Result
	Logs     [][]sim.Entry // per thread
	World    *hx.World
	Complete bool
}

type event struct {
	thread int
	finish bool
	label  string
}

type run struct {
	sc      *Scenario
	w       *hx.World
	mem     *driver.Memory
	events  chan event
	grant   []chan struct{}
	abort   atomic.Bool
	results []hx.Result
	done    []bool
	parked  []string // label the thread is parked at ("" = not parked)
}

// ErrStuck is returned when a granted thread neither parks nor finishes.
var ErrStuck = fmt.Errorf("granted thread neither parked nor finished within the watchdog")

func start(sc *Scenario) (*run, error) {
	w := hx.NewWorld(sc.Driver)
	for _, op := range sc.Setup {
		w.Exec(op, nil)
	}
	w.Sim.BeginOp(sc.Fault)
	r := &run{sc: sc, w: w, events: make(chan event, len(sc.Ops)+1), results: make([]hx.Result, len(sc.Ops)), done: make([]bool, len(sc.Ops)), parked: make([]string, len(sc.Ops))}
	if sc.Driver == "memory" {
		_, r.mem = w.NewStorage(0, nil)
	}
	for range sc.Ops {
		r.grant = append(r.grant, make(chan struct{}, 1))
	}
	w.Sim.Gate = func(thread int, label, class string) {
		if class == "wait" || r.abort.Load() || thread >= len(sc.Ops) {
			return // waits touch no shared state: not a scheduling point
		}
		r.events <- event{thread: thread, label: label}
		<-r.grant[thread]
	}
	for i := range sc.Ops {
		go func(i int) {
			res := w.ExecThread(sc.Ops[i], nil, i, r.mem, false)
			r.results[i] = res
			r.events <- event{thread: i, finish: true}
		}(i)
	}
	// every thread runs to its first call (or finishes)
	for range sc.Ops {
		if err := r.wait(); err != nil {
			return r, err
		}
	}
	return r, nil
}

func (r *run) wait() error {
	select {
	case e := <-r.events:
		if e.finish {
			r.done[e.thread] = true
			r.parked[e.thread] = ""
		} else {
			r.parked[e.thread] = e.label
		}
		return nil
	case <-time.After(60 * time.Second):
		return ErrStuck
	}
}

func (r *run) enabled() []int {
	var out []int
	for i, p := range r.parked {
		if p != "" && !r.done[i] {
			out = append(out, i)
		}
	}
	return out
}

func (r *run) step(t int) error {
	r.parked[t] = ""
	r.grant[t] <- struct{}{}
	return r.wait()
}

// drain lets every remaining thread finish without effect.
func (r *run) drain() {
	r.abort.Store(true)
	r.w.Sim.ForceCrash()
	n := 0
	for i, p := range r.parked {
		if p != "" && !r.done[i] {
			r.parked[i] = ""
			r.grant[i] <- struct{}{}
			n++
		}
	}
	for n > 0 {
		select {
		case e := <-r.events:
			if e.finish {
				n--
			}
		case <-time.After(60 * time.Second):
			return
		}
	}
}

func (r *run) stateKey(budget int) uint64 {
	if r.mem != nil {
		r.w.FlushMem(r.mem)
	}
	s := r.w.Canon()
	for i := range r.sc.Ops {
		s += fmt.Sprintf("|t%d:%x:%v:%s", i, r.w.Sim.ObsHash(i), r.done[i], r.parked[i])
	}
	s += fmt.Sprintf("|b%d", budget)
	return core.Hash64(s)
}

// Stats of one exploration.
type Stats struct {
	Executions int
	Complete   int
	States     int
	Steps      int
	MaxSteps   int
	Stuck      int
}

// Replay runs exactly one schedule to completion (choices beyond the
// recorded ones default to the lowest enabled thread).
func Replay(sc *Scenario, choices []int) (*Exec, error) {
	r, err := start(sc)
	if err != nil {
		r.drain()
		return nil, err
	}
	ex := &Exec{Scenario: sc}
	for i := 0; ; i++ {
		en := r.enabled()
		if len(en) == 0 {
			break
		}
		t := en[0]
		if i < len(choices) {
			ok := false
			for _, e := range en {
				if e == choices[i] {
					ok = true
				}
			}
			if !ok {
				r.drain()
				return nil, fmt.Errorf("replay diverged at step %d: thread %d not enabled (enabled %v)", i, choices[i], en)
			}
			t = choices[i]
		}
		ex.Choices = append(ex.Choices, t)
		ex.Trace = append(ex.Trace, Step{Thread: t, Label: r.parked[t]})
		if err := r.step(t); err != nil {
			r.drain()
			return nil, err
		}
	}
	finish(r, ex)
	return ex, nil
}

func finish(r *run, ex *Exec) {
	if r.mem != nil {
		r.w.FlushMem(r.mem)
	}
	ex.Complete = true
	ex.Results = r.results
	ex.World = r.w
	all := r.w.Sim.SnapshotLog()
	ex.Logs = make([][]sim.Entry, len(r.sc.Ops))
	for _, e := range all {
		if e.Thread < len(ex.Logs) {
			ex.Logs[e.Thread] = append(ex.Logs[e.Thread], e)
		}
	}
}

// Explore enumerates all schedules of the scenario (up to its preemption
// bound) and calls check on every complete execution.
func Explore(sc *Scenario, check func(*Exec), onState func(key uint64, live int), deadline time.Time) (Stats, error) {
	var st Stats
	visited := map[uint64]struct{}{}
	type item struct {
		prefix []int
	}
	stack := []item{{}}
	for len(stack) > 0 {
		if time.Now().After(deadline) {
			return st, fmt.Errorf("deadline reached with %d schedules pending", len(stack))
		}
		it := stack[len(stack)-1]
		stack = stack[:len(stack)-1]
		r, err := start(sc)
		if err != nil {
			st.Stuck++
			r.drain()
			return st, err
		}
		st.Executions++
		ex := &Exec{Scenario: sc}
		running, preempt := -1, 0
		pruned := false
		for i := 0; ; i++ {
			en := r.enabled()
			if len(en) == 0 {
				break
			}
			// canonical order: running thread first if still enabled, then ascending ids
			order := en
			runningEnabled := false
			for _, e := range en {
				if e == running {
					runningEnabled = true
				}
			}
			if runningEnabled {
				order = []int{running}
				for _, e := range en {
					if e != running {
						order = append(order, e)
					}
				}
			}
			var t int
			if i < len(it.prefix) {
				t = it.prefix[i]
				ok := false
				for _, e := range en {
					if e == t {
						ok = true
					}
				}
				if !ok {
					r.drain()
					return st, fmt.Errorf("schedule diverged while replaying a prefix at step %d (scenario %s)", i, sc.Name)
				}
			} else {
				budget := -1
				if sc.Bound >= 0 {
					budget = sc.Bound - preempt
				}
				k := r.stateKey(budget)
				if _, ok := visited[k]; ok {
					pruned = true
					break
				}
				visited[k] = struct{}{}
				if onState != nil {
					onState(k, len(en))
				}
				t = order[0]
				for _, alt := range order[1:] {
					cost := preempt
					if runningEnabled {
						cost++
					}
					if sc.Bound >= 0 && cost > sc.Bound {
						continue
					}
					p := append(append([]int{}, ex.Choices...), alt)
					stack = append(stack, item{prefix: p})
				}
			}
			if runningEnabled && t != running {
				preempt++
			}
			running = t
			ex.Choices = append(ex.Choices, t)
			ex.Trace = append(ex.Trace, Step{Thread: t, Label: r.parked[t]})
			st.Steps++
			if err := r.step(t); err != nil {
				st.Stuck++
				r.drain()
				return st, err
			}
		}
		if pruned {
			r.drain()
			continue
		}
		if len(ex.Choices) > st.MaxSteps {
			st.MaxSteps = len(ex.Choices)
		}
		finish(r, ex)
		st.Complete++
		check(ex)
	}
	st.States = len(visited)
	return st, nil
}
