package main

import (
	_ "verif/harness/checks/c11"
	"verif/harness/internal/cli"
)

func main() { cli.Main() }
