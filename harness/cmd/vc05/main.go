package main

import (
	"verif/harness/internal/cli"

	_ "verif/harness/checks/c05"
)

func main() { cli.Main() }
