package main

import (
	"verif/harness/internal/cli"

	_ "verif/harness/checks/c12"
)

func main() { cli.Main() }
