package main

import (
	_ "verif/harness/checks/c20"
	"verif/harness/internal/cli"
)

func main() { cli.Main() }
