package main

import (
	"fmt"
	"os"
	"strings"
	"time"

	"helm.sh/helm/v4/pkg/chart/v2/loader"
	chartutil "helm.sh/helm/v4/pkg/chart/v2/util"
)

func main() {
	switch os.Args[1] {
	case "iv":
		files := []*loader.BufferedFile{
			{Name: "Chart.yaml", Data: []byte("apiVersion: v2\nname: p\nversion: 0.1.0\ndependencies:\n- name: sub\n  version: 0.1.0\n  import-values:\n  - child: data\n    parent: imported\n  - child: data\n    parent: imported.own\n")},
			{Name: "charts/sub/Chart.yaml", Data: []byte("apiVersion: v2\nname: sub\nversion: 0.1.0\n")},
			{Name: "charts/sub/values.yaml", Data: []byte("data:\n  k: v\n")},
		}
		ch, err := loader.LoadFiles(files)
		if err != nil {
			panic(err)
		}
		t0 := time.Now()
		err = chartutil.ProcessDependencies(ch, map[string]interface{}{})
		fmt.Println("returned after", time.Since(t0), err)
	case "schema":
		n := 0
		fmt.Sscan(os.Args[2], &n)
		schema := strings.Repeat("{\"properties\":{\"a\":", n) + "{}" + strings.Repeat("}}", n)
		t0 := time.Now()
		err := chartutil.ValidateAgainstSingleSchema(map[string]interface{}{"a": 1}, []byte(schema))
		s := fmt.Sprint(err)
		if len(s) > 100 {
			s = s[:100]
		}
		fmt.Println("depth", n, "returned after", time.Since(t0), s)
	}
}
