// Command verif is the single entry point of the verification harness
// (see internal/cli for the sub-commands).
package main

import (
	"verif/harness/internal/cli"

	_ "verif/harness/checks"
)

func main() { cli.Main() }
