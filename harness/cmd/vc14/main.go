package main

import (
	_ "verif/harness/checks/c14"
	"verif/harness/internal/cli"
)

func main() { cli.Main() }
