package main

import (
	"verif/harness/internal/cli"

	_ "verif/harness/checks/c09"
)

func main() { cli.Main() }
