package main

import (
	_ "verif/harness/checks/c18"
	"verif/harness/internal/cli"
)

func main() { cli.Main() }
