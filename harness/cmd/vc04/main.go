package main

import (
	"verif/harness/internal/cli"

	_ "verif/harness/checks/c04"
)

func main() { cli.Main() }
