package main

import (
	_ "verif/harness/checks/c19"
	"verif/harness/internal/cli"
)

func main() { cli.Main() }
