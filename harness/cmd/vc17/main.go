package main

import (
	_ "verif/harness/checks/c17"
	"verif/harness/internal/cli"
)

func main() { cli.Main() }
