package main

import (
	"verif/harness/internal/cli"

	_ "verif/harness/checks/c08"
)

func main() { cli.Main() }
