// Command racepass is the separate free-running pass for Go's race detector:
// the same kinds of bodies the cooperative explorers run (concurrent use of
// one storage backend; concurrent renders of one chart) are executed by real
// goroutines under `-race`. A cooperative scheduler's hand-offs are
// happens-before edges that blind the detector, hence this separate pass. It
// samples schedules (the Go runtime picks them): supporting evidence only.
//
//	racepass <iterations>      exit 0 = no report, 66 = the detector reported a race
package main

import (
	"fmt"
	"os"
	"strconv"
	"sync"

	"k8s.io/client-go/kubernetes/fake"

	chart "helm.sh/helm/v4/pkg/chart/v2"
	chartutil "helm.sh/helm/v4/pkg/chart/v2/util"
	"helm.sh/helm/v4/pkg/engine"
	rspb "helm.sh/helm/v4/pkg/release/v1"
	"helm.sh/helm/v4/pkg/storage"
	"helm.sh/helm/v4/pkg/storage/driver"
)

func rel(name string, v int, st string) *rspb.Release {
	return &rspb.Release{Name: name, Namespace: "default", Version: v, Info: &rspb.Info{Status: rspb.Status(st)},
		Chart: &chart.Chart{Metadata: &chart.Metadata{Name: "c", Version: "1"}}, Config: map[string]any{"k": "v"}}
}

func storageBody(d driver.Driver) {
	st := storage.Init(d)
	var wg sync.WaitGroup
	for g := 0; g < 6; g++ {
		wg.Add(1)
		go func(g int) {
			defer wg.Done()
			for i := 1; i <= 4; i++ {
				st.Create(rel("a", i, "deployed"))
				st.Get("a", i)
				st.Update(rel("a", i, "superseded"))
				st.History("a")
				st.Deployed("a")
				st.ListReleases()
				if g%2 == 0 {
					st.Delete("a", i)
				}
				st.Last("a")
			}
		}(g)
	}
	wg.Wait()
}

func renderBody() {
	ch := &chart.Chart{Metadata: &chart.Metadata{Name: "r", Version: "1", APIVersion: "v2"},
		Values: map[string]any{"m": map[string]any{"a": "1", "b": "2"}},
		Templates: []*chart.File{
			{Name: "templates/_h.tpl", Data: []byte(`{{- define "n" -}}{{ .Values.m.a }}{{- end -}}`)},
			{Name: "templates/a.yaml", Data: []byte("a: {{ include \"n\" . }}\nb: {{ .Values.m | toJson }}\nf: {{ .Files.Get \"x.txt\" }}\n")},
		},
		Files: []*chart.File{{Name: "x.txt", Data: []byte("x")}}}
	vals, err := chartutil.ToRenderValues(ch, map[string]any{}, chartutil.ReleaseOptions{Name: "r", Namespace: "default", IsInstall: true}, chartutil.DefaultCapabilities)
	if err != nil {
		panic(err)
	}
	var wg sync.WaitGroup
	outs := make([]string, 8)
	for g := 0; g < 8; g++ {
		wg.Add(1)
		go func(g int) {
			defer wg.Done()
			m, err := engine.Render(ch, vals)
			if err != nil {
				outs[g] = err.Error()
				return
			}
			outs[g] = m["r/templates/a.yaml"]
		}(g)
	}
	wg.Wait()
	for _, o := range outs[1:] {
		if o != outs[0] {
			fmt.Println("RENDER-MISMATCH")
			os.Exit(67)
		}
	}
}

func main() {
	n := 50
	if len(os.Args) > 1 {
		n, _ = strconv.Atoi(os.Args[1])
	}
	for i := 0; i < n; i++ {
		storageBody(driver.NewMemory())
		storageBody(driver.NewSecrets(fake.NewSimpleClientset().CoreV1().Secrets("default")))
		storageBody(driver.NewConfigMaps(fake.NewSimpleClientset().CoreV1().ConfigMaps("default")))
		renderBody()
	}
	fmt.Printf("racepass: %d iterations x (3 storage backends x 6 goroutines, 8 concurrent renders) completed\n", n)
}
