// Command racepass is the separate free-running pass for Go's race detector:
// the same kinds of bodies the cooperative explorers run (concurrent use of
// one storage backend and concurrent operations on one release; concurrent
// renders) are executed by real goroutines under `-race`. A cooperative
// scheduler's hand-offs are happens-before edges that blind the detector,
// hence this separate pass. The Go runtime picks the schedules, so silence
// proves nothing (the exhaustive verdict comes from the explorers); a report,
// however, is always a real data race, and the runner turns it into a
// violation keyed by the first Helm function of the racing access.
//
//	racepass storage|render <iterations>   exit 0 = no report, 66 = the detector reported a race
package main

import (
	"fmt"
	"io"
	"log/slog"
	"os"
	"strconv"
	"strings"
	"sync"

	"k8s.io/client-go/kubernetes/fake"

	"helm.sh/helm/v4/pkg/action"
	chart "helm.sh/helm/v4/pkg/chart/v2"
	chartutil "helm.sh/helm/v4/pkg/chart/v2/util"
	"helm.sh/helm/v4/pkg/engine"
	kubefake "helm.sh/helm/v4/pkg/kube/fake"
	rspb "helm.sh/helm/v4/pkg/release/v1"
	releaseutil "helm.sh/helm/v4/pkg/release/util"
	"helm.sh/helm/v4/pkg/storage"
	"helm.sh/helm/v4/pkg/storage/driver"
)

func rel(name string, v int, st string) *rspb.Release {
	return &rspb.Release{Name: name, Namespace: "default", Version: v, Info: &rspb.Info{Status: rspb.Status(st)},
		Chart: &chart.Chart{Metadata: &chart.Metadata{Name: "c", Version: "1"}}, Config: map[string]any{"k": "v"}}
}

func storageBody(d driver.Driver) {
	st := storage.Init(d)
	var wg sync.WaitGroup
	for g := 0; g < 6; g++ {
		wg.Add(1)
		go func(g int) {
			defer wg.Done()
			for i := 1; i <= 4; i++ {
				st.Create(rel("a", i, "deployed"))
				st.Get("a", i)
				st.Update(rel("a", i, "superseded"))
				st.History("a")
				st.Deployed("a")
				st.ListReleases()
				d.Query(map[string]string{"name": "a", "owner": "helm"})
				st.Update(rel("a", i, "failed"))
				if g%2 == 0 {
					st.Delete("a", i)
				}
				st.Last("a")
			}
		}(g)
	}
	wg.Wait()
}

func cm(name, body string) string {
	return "apiVersion: v1\nkind: ConfigMap\nmetadata:\n  name: " + name + "\ndata:\n" + body
}

func richChart() *chart.Chart {
	sub := &chart.Chart{Metadata: &chart.Metadata{Name: "s1", Version: "1", APIVersion: "v2"}, Values: map[string]any{"own": "s"},
		Templates: []*chart.File{{Name: "templates/s.yaml", Data: []byte(cm("s1cm", "  v: {{ .Values | toJson | quote }}\n"))}, {Name: "templates/NOTES.txt", Data: []byte("s1 notes\n")}}}
	ch := &chart.Chart{Metadata: &chart.Metadata{Name: "r", Version: "1", APIVersion: "v2"},
		Values: map[string]any{"m": map[string]any{"a": "1", "b": "2"}, "t": `{{ include "n" . }}-{{ .Values.m.b }}`, "global": map[string]any{"g": "x"}},
		Templates: []*chart.File{
			{Name: "templates/_h.tpl", Data: []byte(`{{- define "n" -}}{{ .Values.m.a }}{{- end -}}`)},
			{Name: "templates/a.yaml", Data: []byte(cm("a", "  a: {{ include \"n\" . }}\n  b: {{ .Values.m | toJson | quote }}\n  f: {{ .Files.Get \"x.txt\" }}\n  t: {{ tpl .Values.t . | quote }}\n") + "---\napiVersion: v1\nkind: Service\nmetadata:\n  name: s\nspec:\n  ports:\n  - port: 80\n---\napiVersion: v1\nkind: Secret\nmetadata:\n  name: x1\n---\napiVersion: apps/v1\nkind: Deployment\nmetadata:\n  name: d1\n---\napiVersion: v1\nkind: ServiceAccount\nmetadata:\n  name: sa\n---\napiVersion: v1\nkind: Namespace\nmetadata:\n  name: n1\n---\napiVersion: networking.k8s.io/v1\nkind: Ingress\nmetadata:\n  name: i1\n---\napiVersion: example.verif/v1\nkind: Widget\nmetadata:\n  name: w1\n")},
			{Name: "templates/h.yaml", Data: []byte("apiVersion: batch/v1\nkind: Job\nmetadata:\n  name: hj\n  annotations:\n    helm.sh/hook: pre-install,pre-delete\n---\napiVersion: v1\nkind: ConfigMap\nmetadata:\n  name: hc\n  annotations:\n    helm.sh/hook: pre-install\n    helm.sh/hook-weight: \"-1\"\n")},
			{Name: "templates/NOTES.txt", Data: []byte("notes {{ .Release.Name }}\n")},
		},
		Files: []*chart.File{{Name: "x.txt", Data: []byte("x")}}}
	ch.AddDependency(sub)
	return ch
}

func mismatch(what string) {
	fmt.Println("RENDER-MISMATCH " + what)
	os.Exit(67)
}

// renderBody: 8 concurrent engine renders of one chart object, 6 concurrent
// client-only dry-run installs (render, hook/manifest sorting in install
// order, notes) and, at the same time, the uninstall-order sort of the same
// rendered files; every goroutine's output must equal the sequential one.
func renderBody() {
	ch := richChart()
	vals, err := chartutil.ToRenderValues(ch, map[string]any{}, chartutil.ReleaseOptions{Name: "r", Namespace: "default", IsInstall: true}, chartutil.DefaultCapabilities)
	if err != nil {
		panic(err)
	}
	install := func() string {
		inst := action.NewInstall(&action.Configuration{})
		inst.ClientOnly, inst.DryRun = true, true
		inst.ReleaseName, inst.Namespace, inst.SubNotes = "r", "default", true
		r, err := inst.Run(richChart(), map[string]any{})
		if err != nil {
			return "error: " + err.Error()
		}
		s := r.Manifest + "#" + r.Info.Notes
		for _, h := range r.Hooks {
			s += "#" + h.Path + h.Name
		}
		return s
	}
	unsort := func(files map[string]string) string {
		for k := range files {
			if strings.HasSuffix(k, "NOTES.txt") {
				delete(files, k)
			}
		}
		hs, ms, err := releaseutil.SortManifests(files, nil, releaseutil.UninstallOrder)
		if err != nil {
			panic("racepass: uninstall-order sort failed: " + err.Error())
		}
		s := ""
		for _, m := range ms {
			s += m.Name + "|" + m.Head.Kind + ";"
		}
		for _, h := range hs {
			s += h.Name + ";"
		}
		return s
	}
	seqFiles, err := engine.Render(ch, vals)
	if err != nil {
		panic(err)
	}
	wantRender, wantInstall, wantUnsort := fmt.Sprint(seqFiles), install(), unsort(copyMap(seqFiles))
	var wg sync.WaitGroup
	for g := 0; g < 8; g++ {
		wg.Add(1)
		go func() {
			defer wg.Done()
			m, err := engine.Render(ch, vals)
			if err != nil || fmt.Sprint(m) != wantRender {
				mismatch("engine.Render")
			}
		}()
	}
	for g := 0; g < 6; g++ {
		wg.Add(2)
		go func() {
			defer wg.Done()
			if install() != wantInstall {
				mismatch("install --dry-run")
			}
		}()
		go func() {
			defer wg.Done()
			if unsort(copyMap(seqFiles)) != wantUnsort {
				mismatch("SortManifests(UninstallOrder)")
			}
		}()
	}
	wg.Wait()
}

func copyMap(m map[string]string) map[string]string {
	o := map[string]string{}
	for k, v := range m {
		o[k] = v
	}
	return o
}

// actionBody: three installs and two upgrades of one release name, each with
// its own Configuration and Storage over ONE shared driver, free-running.
func actionBody(d driver.Driver) {
	simple := func() *chart.Chart {
		return &chart.Chart{Metadata: &chart.Metadata{Name: "c", Version: "1", APIVersion: "v2"}, Values: map[string]any{},
			Templates: []*chart.File{{Name: "templates/a.yaml", Data: []byte(cm("a", "  k: v\n"))}}}
	}
	newCfg := func() *action.Configuration {
		return &action.Configuration{KubeClient: &kubefake.PrintingKubeClient{Out: io.Discard}, Releases: storage.Init(d), Capabilities: chartutil.DefaultCapabilities}
	}
	first := action.NewInstall(newCfg())
	first.ReleaseName, first.Namespace = "r", "default"
	first.Run(simple(), map[string]any{})
	var wg sync.WaitGroup
	for g := 0; g < 2; g++ {
		wg.Add(1)
		go func() {
			defer wg.Done()
			inst := action.NewInstall(newCfg())
			inst.ReleaseName, inst.Namespace = "r", "default"
			inst.Run(simple(), map[string]any{})
		}()
	}
	for g := 0; g < 3; g++ {
		wg.Add(1)
		go func() {
			defer wg.Done()
			up := action.NewUpgrade(newCfg())
			up.Namespace = "default"
			up.Run("r", simple(), map[string]any{})
		}()
	}
	wg.Wait()
}

// body announces which body the following race reports (same stream) belong to.
func body(name string, fn func()) {
	fmt.Fprintf(os.Stderr, "RACEPASS-BODY %s\n", name)
	fn()
}

func main() {
	mode, n := "all", 50
	if len(os.Args) > 1 {
		mode = os.Args[1]
	}
	if len(os.Args) > 2 {
		n, _ = strconv.Atoi(os.Args[2])
	}
	slog.SetDefault(slog.New(slog.NewTextHandler(io.Discard, nil)))
	for i := 0; i < n; i++ {
		if mode == "storage" || mode == "all" {
			body("storage-memory", func() { storageBody(driver.NewMemory()) })
			body("storage-secrets", func() { storageBody(driver.NewSecrets(fake.NewSimpleClientset().CoreV1().Secrets("default"))) })
			body("storage-configmaps", func() { storageBody(driver.NewConfigMaps(fake.NewSimpleClientset().CoreV1().ConfigMaps("default"))) })
			body("operations-secrets", func() { actionBody(driver.NewSecrets(fake.NewSimpleClientset().CoreV1().Secrets("default"))) })
			body("operations-memory", func() {
				mem := driver.NewMemory()
				mem.SetNamespace("default")
				actionBody(mem)
			})
		}
		if mode == "render" || mode == "all" {
			body("render", renderBody)
		}
	}
	fmt.Fprintf(os.Stderr, "RACEPASS-BODY none\n")
	fmt.Printf("racepass %s: %d iterations completed (storage-*: 3 backends x 6 goroutines; operations-*: 2 installs + 3 upgrades of one release over one shared driver; render: 8 engine renders + 6 dry-run installs + 6 uninstall-order sorts, concurrently)\n", mode, n)
}
