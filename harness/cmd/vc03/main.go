package main

import (
	"verif/harness/internal/cli"

	_ "verif/harness/checks/c03"
)

func main() { cli.Main() }
