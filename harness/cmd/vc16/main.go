package main

import (
	_ "verif/harness/checks/c16"
	"verif/harness/internal/cli"
)

func main() { cli.Main() }
