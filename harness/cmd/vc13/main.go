package main

import (
	"verif/harness/internal/cli"

	_ "verif/harness/checks/c13"
)

func main() { cli.Main() }
