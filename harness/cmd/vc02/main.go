package main

import (
	"verif/harness/internal/cli"

	_ "verif/harness/checks/c02"
)

func main() { cli.Main() }
