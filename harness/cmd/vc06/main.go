package main

import (
	_ "verif/harness/checks/c06"
	"verif/harness/internal/cli"
)

func main() { cli.Main() }
