package main

import (
	_ "verif/harness/checks/c15"
	"verif/harness/internal/cli"
)

func main() { cli.Main() }
