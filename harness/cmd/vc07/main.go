package main

import (
	"verif/harness/internal/cli"

	_ "verif/harness/checks/c07"
)

func main() { cli.Main() }
