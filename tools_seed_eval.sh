#!/bin/bash
# usage: tools_seed_eval.sh <worktree> <n> <pkgdir-for-demo> "<check ids>"
# 1. confirms the seeded change in the scratch worktree: builds, demo passes without / fails with the change,
#    the packages' own tests still pass with it
# 2. applies it to /repo, runs the given checks (quick), reverts /repo
set -u
wt=$1; n=$2; pkg=$3; checks=$4
. /verif/env.sh
cd "$wt" || exit 2
git checkout -q -- . ; git clean -qfd -e SEEDED
demo=SEEDED/demo${n}_test.go
cp "$demo" "$pkg/zz_seeded_demo_test.go"
run=$(grep -o 'func Test[A-Za-z0-9_]*' "$demo" | sed 's/func //' | paste -sd'|')
echo "== demo on clean tree (expect PASS)"; go test -count=1 -run "^($run)\$" "./$pkg/" 2>&1 | tail -3
git apply SEEDED/change${n}.diff || { echo "APPLY FAILED"; exit 2; }
echo "== build with change"; go build ./... 2>&1 | tail -3
echo "== demo with change (expect FAIL)"; go test -count=1 -run "^($run)\$" "./$pkg/" 2>&1 | tail -5
rm -f "$pkg/zz_seeded_demo_test.go"
echo "== existing tests of touched packages with change"
pkgs=$(git diff --name-only | xargs -n1 dirname | sort -u | sed 's#^#./#' | paste -sd' ')
go test -count=1 $pkgs ./pkg/action/ ./pkg/storage/... 2>&1 | grep -E "^(ok|FAIL|---)" | head -20
git checkout -q -- . ; git clean -qfd -e SEEDED
echo "== my checks on /repo with the change"
git -C /repo apply "$wt/SEEDED/change${n}.diff" || { echo "APPLY TO /repo FAILED"; exit 2; }
cd /verif
for c in $checks; do
  ./run.sh check $c --tier quick > /var/tmp/seed-eval-$c.log 2>&1; rc=$?
  echo "check $c exit=$rc: $(grep -c '^VIOLATION' /var/tmp/seed-eval-$c.log) VIOLATION lines"; grep -E '^violation' /var/tmp/seed-eval-$c.log | cut -c1-300 | head -4; grep -E '^check' /var/tmp/seed-eval-$c.log
done
git -C /repo checkout -- . ; git -C /repo status --short | head -3
rm -rf /verif/replays/*/  2>/dev/null
