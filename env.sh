# Environment for every build/run of the harness (offline, go1.24.0 from the module cache).
export PATH=/root/go/pkg/mod/golang.org/toolchain@v0.0.1-go1.24.0.linux-amd64/bin:$PATH
export GOTOOLCHAIN=local GOFLAGS=-mod=mod GOPROXY=off GOSUMDB=off
export GOCACHE=${GOCACHE:-/root/.cache/go-build}
